"""
streamsim -- producer -> noisy channel -> the real scanner (C11, C12, C17).

A plan is a JSON value generated from a seed before execution:
  {'engine':'streamsim','family':F,'seed':n,'knobs':{...},'items':[{'ref','hex','fault','adm'}],'seps':[hex..]}
families:
  c11         fault-free streams (delivery exactly-once / in order / byte exact, filters, CLI fronts)
  c12         streams with every subset of messages damaged (stopsig / undef / len+-), coe on or off
  c12-trunc   one message, a list of truncation points
  c12-tail    one message followed by arbitrary bytes
  c17         one message with damage confined to data section / section 5, metadata-only decode + %queries
  c17-stream  streams of such messages scanned metadata-only
`finalize` (pure, no pybufrkit) derives the byte stream, offsets and the soundness guards; the
executor runs in a forked child; the oracle is a list comparison against what the producer wrote.
"""
import hashlib
import io
import json
import random
import sys

from sim import bufrgen, core

MODES = ('full', 'info')


def _h(b):
    return hashlib.sha1(b).hexdigest()[:16]


# ----------------------------------------------------------------------------
# separators
def gen_separator(rng, kind=None):
    kind = kind or rng.choice(['empty', 'empty', 'gts', 'noise', 'partial', 'stop', 'digits', 'buf_tail',
                               'text', 'gts_tail'])
    if kind == 'empty':
        s = b''
    elif kind == 'gts':
        s = b'\x01\r\r\n%03d\r\r\nIS%s%02d %s %02d%02d00\r\r\n' % (
            rng.randint(0, 999), bytes(rng.choice(b'MNAUS') for _ in range(2)), rng.randint(1, 99),
            bytes(rng.choice(b'OKPREGLDAMC') for _ in range(4)), rng.randint(1, 28), rng.randint(0, 23))
    elif kind == 'gts_tail':
        s = b'\r\r\n\x03'
    elif kind == 'noise':
        s = bytes(rng.randrange(256) for _ in range(rng.randint(1, 64)))
    elif kind == 'partial':
        s = rng.choice([b'B', b'BU', b'BUF', b'BUFBUF', b'UFR', b'FR', b'BUFBUFBU', b'BBUF', b'BUFUFR'])
    elif kind == 'stop':
        s = rng.choice([b'7777', b'77777777', b'777', b'7777\r\r\n'])
    elif kind == 'digits':
        s = bytes(rng.choice(b'0123456789') for _ in range(rng.randint(1, 12)))
    elif kind == 'buf_tail':
        s = bytes(rng.randrange(32, 127) for _ in range(rng.randint(0, 10))) + b'BUF'
    else:
        s = bytes(rng.choice(b'ABCDEFGHIJKLMNOPQRSTUVWXYZ \r\n') for _ in range(rng.randint(1, 40)))
    while b'BUFR' in s:
        s = s.replace(b'BUFR', b'BUFX')
    return kind, s


# ----------------------------------------------------------------------------
# finalize: plan -> layout (pure)
def finalize(plan):
    """-> dict(stream, segs=[{start,end,bytes,damaged,must_skip,fault_kind,total}], ok, why)"""
    items = plan.get('items', [])
    seps = [bytes.fromhex(x) for x in plan.get('seps', [''] * (len(items) + 1))]
    parts = []
    segs = []
    pos = 0
    for i, it in enumerate(items):
        sep = seps[i] if i < len(seps) else b''
        parts.append(sep)
        pos += len(sep)
        raw = bytes.fromhex(it['hex'])
        dmg = bufrgen.apply_fault(raw, it['fault']) if it.get('fault') else raw
        segs.append({'start': pos, 'end': pos + len(dmg), 'bytes': dmg, 'orig': raw,
                     'damaged': bool(it.get('fault')), 'fault': it.get('fault')})
        parts.append(dmg)
        pos += len(dmg)
    tail = seps[len(items)] if len(seps) > len(items) else b''
    parts.append(tail)
    # 'container': the declared total length of one message is enlarged so that it ends exactly where a
    # later message ends - by its declared length that message IS those octets (metadata-only scanning)
    for i, s in enumerate(segs):
        f = s['fault']
        if f and f['kind'] == 'total':
            k = i + f['count']
            if k >= len(segs) or k == i or any(x['damaged'] for x in segs[i + 1:k + 1]) or \
                    segs[k]['end'] - s['start'] >= (1 << 24) or plan.get('family') != 'c17-stream':
                return {'stream': b'', 'segs': segs, 'ok': False, 'why': 'container layout not possible'}
            s['bytes'] = bufrgen.apply_fault(s['orig'], dict(f, value=segs[k]['end'] - s['start']))
            parts[2 * i + 1] = s['bytes']
            s['span_end'] = segs[k]['end']
            for x in segs[i + 1:k + 1]:
                x['swallowed'] = True
    stream = b''.join(parts)
    lay = {'stream': stream, 'segs': segs, 'ok': True, 'why': None}

    # every start signature is at a known start or inside an undamaged body
    i = stream.find(b'BUFR')
    while i >= 0:
        good = False
        for s in segs:
            if i == s['start']:
                good = True
            elif (not s['damaged']) and s['start'] < i <= s['end'] - 4:
                good = True
            elif s['damaged'] and s['start'] < i <= s['end'] - 4 and plan.get('family') == 'c12' and \
                    s['fault']['kind'] in ('len', 'undef', 'stopsig') and \
                    s['orig'][i - s['start']:i - s['start'] + 4] == b'BUFR':
                # a start signature the message held before it was damaged (section 2 octets, character data, a
                # whole message carried inside): the damaged message is skipped by its declared total length,
                # whatever it holds is not looked at
                good = True
        if not good:
            lay['ok'], lay['why'] = False, 'stray start signature at %d' % i
            return lay
        i = stream.find(b'BUFR', i + 1)

    for s in segs:
        s['must_skip'] = False
        if not s['damaged']:
            continue
        f = s['fault']
        k = f['kind']
        w0 = bufrgen.walk(s['orig'])
        if k == 'stopsig':
            if s['bytes'][-4:] == b'7777':
                lay['ok'], lay['why'] = False, 'stop signature not changed'
                return lay
            s['must_skip'] = True
        elif k == 'len':
            w = bufrgen.walk(stream, s['start'])
            # the sections no longer add up to the (intact) declared total length: the message must be
            # refused wherever the declared lengths lead - off the stream, into the octets that follow, or
            # exactly onto a stop signature that belongs to a later message ("bytes that follow a message
            # never influence its decoding")
            s['must_skip'] = True
            if w is not None and w['end'] is not None and stream[w['end']:w['end'] + 4] == b'7777':
                s['lands'] = True
        elif k == 'undef':
            # an undefined descriptor anywhere in the list makes the descriptor list one that cannot be turned
            # into a template - also where the data would never reach it (inside a replication executed zero
            # times, in a message of zero subsets). The one exception: the descriptor that follows 206YYY is a
            # local descriptor of known width and is legitimately passed over
            p0 = f['pos']
            s['must_skip'] = not (p0 > 0 and 206000 < w0['ids'][p0 - 1] <= 206255)
        elif k in ('data', 'total'):
            s['must_skip'] = False
        elif k == 'trunc':
            # the producer crashed: the stream ends inside this message (end of input). Only as the very
            # last thing of the stream, with the complete start signature and at least one more octet
            # delivered (a shorter remainder is a separator made of a partial signature - C11's business)
            if s is not segs[-1] or tail or not (5 <= f['cut'] < len(s['orig'])):
                lay['ok'], lay['why'] = False, 'end-of-input fault must be the last thing of the stream'
                return lay
            s['must_skip'] = True
        else:
            lay['ok'], lay['why'] = False, 'fault kind %s not allowed in a stream' % k
            return lay
    return lay


def header_truth(raw):
    """independent header fields for filter expressions"""
    w = bufrgen.walk(raw)
    d = {'edition': w['edition'], 'data_category': w['category'], 'n_subsets': w['nsub'],
         'is_compressed': w['compressed'], 'master_table_version': w['version'], 'length': w['total'],
         'local_table_version': w['local_version']}
    # fields whose presence depends on the edition's section 1 layout (absent -> the lookup gives None)
    o1 = w['sections'][1][0]
    if w['edition'] == 4:
        d['originating_subcentre'] = int.from_bytes(raw[o1 + 6:o1 + 8], 'big')
        d['master_table_number'] = raw[o1 + 3]
    elif w['edition'] == 3:
        d['originating_subcentre'] = raw[o1 + 4]
        d['master_table_number'] = raw[o1 + 3]
    else:
        d['originating_subcentre'] = None
        d['master_table_number'] = raw[o1 + 3]
    for k, (_o, l) in w['sections'].items():
        d['%d.section_length' % k] = l
    return d


FILTERS = [
    ('${%%data_category} == %(cat)d', lambda h, a: h['data_category'] == a['cat']),
    ('${%%data_category} != %(cat)d', lambda h, a: h['data_category'] != a['cat']),
    ('${%%n_subsets} > %(ns)d', lambda h, a: h['n_subsets'] > a['ns']),
    ('${%%edition} in (3, 4)', lambda h, a: h['edition'] in (3, 4)),
    ('${%%edition} == %(ed)d', lambda h, a: h['edition'] == a['ed']),
    ('${%%is_compressed}', lambda h, a: h['is_compressed']),
    ('not ${%%is_compressed}', lambda h, a: not h['is_compressed']),
    ('${%%3.section_length} %% 2 == 0', lambda h, a: h['3.section_length'] % 2 == 0),
    ('${%%master_table_version} >= %(ver)d', lambda h, a: h['master_table_version'] >= a['ver']),
    ('${%%length} < %(len)d', lambda h, a: h['length'] < a['len']),
    ('${%%n_subsets} == 1 and ${%%edition} == 4', lambda h, a: h['n_subsets'] == 1 and h['edition'] == 4),
    ('${%%is_compressed} or ${%%data_category} == %(cat)d',
     lambda h, a: h['is_compressed'] or h['data_category'] == a['cat']),
    ('${%%2.section_length} is None', lambda h, a: '2.section_length' not in h),
    ('True', lambda h, a: True),
    ('False', lambda h, a: False),
    ('${%%originating_subcentre} == %(sub)d', lambda h, a: h['originating_subcentre'] == a['sub']),
    ('${%%originating_subcentre} is None', lambda h, a: h['originating_subcentre'] is None),
    ('${%%master_table_number} == 0 and ${%%originating_subcentre} != %(sub)d',
     lambda h, a: h['master_table_number'] == 0 and h['originating_subcentre'] != a['sub']),
    ('${%%1.section_length} > %(l1)d', lambda h, a: h['1.section_length'] > a['l1']),
    ('${%%3.section_length} >= %(l3)d', lambda h, a: h['3.section_length'] >= a['l3']),
    # a filter is a Python expression: builtins other than comparisons are fair game
    ('${%%edition} in range(3, 5)', lambda h, a: h['edition'] in range(3, 5)),
    ('len(str(${%%length})) >= 3', lambda h, a: len(str(h['length'])) >= 3),
    ('sorted([${%%n_subsets}, %(ns)d])[0] == %(ns)d', lambda h, a: sorted([h['n_subsets'], a['ns']])[0] == a['ns']),
    ('isinstance(${%%n_subsets}, int) and divmod(${%%length}, 2)[1] == 0', lambda h, a: h['length'] % 2 == 0),
    ('${%%data_category} in set([%(cat)d, 250])', lambda h, a: h['data_category'] in (a['cat'], 250)),
    ('any(x == ${%%edition} for x in (2, 4))', lambda h, a: h['edition'] in (2, 4)),
    # ... and so are nested scopes: the looked-up value inside a lambda, a comprehension, a conditional
    ('(lambda c: c == ${%%data_category})(%(cat)d)', lambda h, a: h['data_category'] == a['cat']),
    ('[c for c in (1,) if ${%%n_subsets} > %(ns)d] != []', lambda h, a: h['n_subsets'] > a['ns']),
    ('{k: ${%%edition} for k in (1,)}[1] == %(ed)d', lambda h, a: h['edition'] == a['ed']),
    ('max(x + ${%%length} for x in [0]) < %(len)d', lambda h, a: h['length'] < a['len']),
    ('(${%%n_subsets} if ${%%is_compressed} else -1) > %(ns)d', lambda h, a: (h['n_subsets'] if h['is_compressed'] else -1) > a['ns']),
    ('list(filter(lambda v: v == ${%%master_table_version}, [%(ver)d])) == [%(ver)d]',
     lambda h, a: h['master_table_version'] == a['ver']),
    # fields outside sections 1-3: section 0 and the header of section 4 (a metadata-only decode has both)
    ('${%%4.section_length} < %(l4)d', lambda h, a: h['4.section_length'] < a['l4']),
    ('${%%0.length} >= %(len)d', lambda h, a: h['length'] >= a['len']),
    ('${%%4.section_length} + ${%%3.section_length} > %(l34)d', lambda h, a: h['4.section_length'] + h['3.section_length'] > a['l34']),
]
OUTSIDE_1_3 = [i for i, f in enumerate(FILTERS) if '%%length' in f[0] or '%%4.' in f[0] or '%%0.' in f[0]]


def gen_filter(rng, items, among=None):
    idx = rng.choice(among) if among else rng.randrange(len(FILTERS))
    hs = [header_truth(bytes.fromhex(it['hex'])) for it in items] or [{'data_category': 0, 'n_subsets': 1,
                                                                      'edition': 4, 'master_table_version': 13,
                                                                      'length': 100, 'originating_subcentre': 0,
                                                                      '1.section_length': 22, '3.section_length': 9,
                                                                      '4.section_length': 4}]
    h = rng.choice(hs)
    args = {'cat': h['data_category'], 'ns': max(0, h['n_subsets'] - rng.randint(0, 1)), 'ed': h['edition'],
            'ver': h['master_table_version'], 'len': h['length'] + rng.choice([0, 1]),
            'sub': h['originating_subcentre'] or 0, 'l1': h['1.section_length'] - rng.choice([0, 1]),
            'l3': h['3.section_length'] + rng.choice([0, 1]), 'l4': h.get('4.section_length', 4) + rng.choice([0, 1]),
            'l34': h.get('4.section_length', 4) + h['3.section_length'] - rng.choice([0, 1])}
    return {'idx': idx, 'args': args, 'expr': FILTERS[idx][0] % args}


def filter_expected(flt, raw):
    return bool(FILTERS[flt['idx']][1](header_truth(raw), flt['args']))


# ----------------------------------------------------------------------------
# fault generation
def gen_stream_fault(rng, raw, kinds):
    w = bufrgen.walk(raw)
    kind = rng.choice(kinds)
    if kind == 'stopsig':
        b = rng.choice([b'7778', b'0000', b'777' + bytes([rng.randrange(256)]),
                        bytes(rng.randrange(256) for _ in range(4)), b'\x00777', b'7777'[::-1][:3] + b'x',
                        # bytes that mean something to text formatting (the error text quotes them)
                        b'77{7', b'{}77', b'}777', b'{0}7', b'%s%d', b'7%77', b'\\x77', b'\xff\xfe77', b"7'7\""])
        if b == b'7777':
            b = b'7770'
        return {'kind': 'stopsig', 'bytes': b.hex()}
    if kind in ('undef_el', 'undef_seq'):
        if not w['ids']:
            return None
        tops = bufrgen.top_level_positions(w['ids'])
        in221 = [p + 1 + j for p, x in enumerate(w['ids']) if 221000 < x <= 221255
                 for j in range(x % 1000) if p + 1 + j < len(w['ids'])]
        if in221 and rng.random() < 0.5:
            pos = rng.choice(in221)     # inside the scope of 'data not present': still an undefined descriptor
        elif tops and rng.random() < 0.7:
            pos = rng.choice(tops)
        else:
            pos = rng.randrange(len(w['ids']))
        pool = bufrgen.undefined_element_ids() if kind == 'undef_el' else bufrgen.undefined_sequence_ids()
        if kind == 'undef_el' and rng.random() < 0.3:
            pool = bufrgen.special_undefined_element_ids() or pool
            if rng.random() < 0.5:
                pos = len(w['ids']) - 1         # e.g. 000000 as the last descriptor: not padding, a descriptor
        return {'kind': 'undef', 'pos': pos, 'id': rng.choice(pool), 'sub': kind}
    if kind in ('len-', 'len+'):
        sec = rng.choice(sorted(w['sections']))
        l = w['sections'][sec][1]
        ks = [1, 2, 3, 4, 8, max(1, l // 2)]
        k = rng.choice(ks)
        if kind == 'len-':
            k = min(k, l)
            if k == 0:
                return None
            return {'kind': 'len', 'section': sec, 'delta': -k}
        return {'kind': 'len', 'section': sec, 'delta': k}
    raise ValueError(kind)


def gen_data_damage(rng, raw, alone=False):
    """overwrite bytes confined to the data section and section 5. The data section includes its own
    4-octet header: a metadata-only decode 'never reads the data section', so a damaged section 4 length must
    not stop it either (region 'hdr4'); for a lone message (alone=True) the input may also END inside the data
    section (region 'cut')"""
    w = bufrgen.walk(raw)
    o4, l4 = w['sections'][4]
    lo, hi = o4 + 4, len(raw)       # hi includes the stop signature
    region = rng.choice(['data', 'data', 'stop', 'both', 'hdr4'] + (['cut'] if alone else []))
    ops = []
    if region == 'hdr4':
        nl = rng.choice([0, 3, 4, l4 - 1, l4 + 1, 200, 0xFFFFFF, rng.randrange(1 << 24)])
        if nl == l4 or nl < 0:
            nl = l4 + 2
        return {'kind': 'data', 'ops': [[o4, int(nl).to_bytes(3, 'big').hex()]], 'region': 'hdr4'}
    if region == 'cut':
        return {'kind': 'data', 'ops': [], 'cut': rng.randint(lo, max(lo, o4 + l4)), 'region': 'cut'}
    if region in ('data', 'both') and o4 + l4 > lo:
        dhi = o4 + l4
        n = rng.choice([1, 1, 2, 4, 16, dhi - lo])
        n = max(1, min(n, dhi - lo))
        off = rng.randint(lo, dhi - n)
        k = rng.choice(['bit', 'byte', 'ff', '00', 'rand'])
        if k == 'bit':
            ops.append([off, bytes([raw[off] ^ (1 << rng.randrange(8))]).hex()])
        elif k == 'byte':
            ops.append([off, bytes([raw[off] ^ 0xA5]).hex()])
        elif k == 'ff':
            ops.append([off, (b'\xff' * n).hex()])
        elif k == '00':
            ops.append([off, (b'\x00' * n).hex()])
        else:
            ops.append([off, bytes(rng.randrange(256) for _ in range(n)).hex()])
    if region in ('stop', 'both') or not ops:
        ops.append([hi - 4, rng.choice([b'7778', b'0000', b'\xff\xff\xff\xff', b'777\x00']).hex()])
        region = 'stop' if not ops[:-1] else 'both'
    # never create a start signature
    m = bufrgen.apply_fault(raw, {'kind': 'data', 'ops': ops})
    if m.find(b'BUFR', 1) >= 0 and raw.find(b'BUFR', 1) < 0:
        return None
    return {'kind': 'data', 'ops': ops, 'region': region}


# ----------------------------------------------------------------------------
# plan generation
def _pick(rng, pool, n, pred=None):
    cands = [e for e in pool if pred is None or pred(e)]
    return [rng.choice(cands) for _ in range(n)] if cands else []


def _item(e, fault=None):
    return {'ref': e['ref'], 'hex': e['hex'], 'fault': fault, 'cls': e['cls'],
            'adm': dict((k, e['adm']['full'][k]) for k in ('v', 'l', 'k', 'b', 'n'))}


def no_defs(e):
    return 'D' not in e['cls']


def _sig_positions(raw):
    out, i = [], raw.find(b'BUFR', 1)
    while i >= 0:
        out.append(i)
        i = raw.find(b'BUFR', i + 1)
    return out


_KIN = {}


def _kin_groups(pool):
    """groups of small pool messages with octet-identical sections 1-3 and at least two different total lengths"""
    key = id(pool)
    if key not in _KIN:
        by = {}
        for e in pool:
            if e['adm']['full']['n'] > 3000 or 'D' in e['cls']:
                continue
            raw = bytes.fromhex(e['hex'])
            w = bufrgen.walk(raw)
            if not w or 4 not in w['sections']:
                continue
            by.setdefault(raw[8:w['sections'][4][0]], []).append(e)
        _KIN.clear()
        _KIN[key] = [g for _k, g in sorted(by.items()) if len(set(len(x['hex']) for x in g)) >= 2]
    return _KIN[key]


_HAS_221 = {}


def _has_221(e):
    k = e['ref']
    if k not in _HAS_221:
        w = bufrgen.walk(bytes.fromhex(e['hex']))
        _HAS_221[k] = bool(w) and any(221000 < i <= 221255 for i in w['ids'])
    return _HAS_221[k]


def gen_plan(family, seed, pool, tier='quick'):
    rng = random.Random(seed)
    for attempt in range(50):
        plan = _gen_plan(family, rng, pool, tier)
        if plan is None:
            continue
        plan.update({'engine': 'streamsim', 'family': family, 'seed': seed})
        if family == 'c12-eof':
            plan.update({'family': 'c12', 'sub': 'eof'})
        if family == 'c11-big':
            plan.update({'family': 'c11', 'sub': 'big'})
        if plan['family'] in ('c11', 'c12', 'c17-stream'):
            lay = finalize(plan)
            if not lay['ok']:
                continue
        return plan
    raise core.HarnessError('could not generate a valid %s plan for seed %d' % (family, seed))


def _gen_plan(family, rng, pool, tier):
    small = lambda e: e['adm']['full']['n'] <= 3000 and no_defs(e)
    # synthetic table-definition messages (over ids nobody else uses) are ordinary messages for a
    # metadata-only decode or scan: their data section must not be read either
    synth_defs = [e for e in pool if 'D' in e['cls'] and e['src'] == 'synth']
    large = [e for e in pool if 'L' in e['cls']]       # sections 0-3 beyond 64 KiB
    if family == 'c11':
        n = rng.choice([0, 1, 1, 2, 2, 3, 3, 4, 5, 6, 8])
        bias = rng.random()
        if bias < 0.3:
            pred = lambda e: small(e) and ('B' in e['cls'] or 'S' in e['cls'])
        elif bias < 0.5:
            pred = lambda e: small(e) and e['src'] == 'synth'
        else:
            pred = small
        items = [_item(e) for e in _pick(rng, pool, n, pred)]
        kin = None
        if rng.random() < 0.12:
            # 'kin': messages whose sections 1-3 are octet-identical and which differ elsewhere (data twins: one
            # descriptor list, other replication counts, so other lengths) - whatever is remembered per header
            # must not stand in for what sections 0 and 4 say; always scanned under a filter on those
            groups = _kin_groups(pool)
            if groups:
                g = groups[rng.randrange(len(groups))]
                kin = [_item(rng.choice(g)) for _ in range(rng.randint(2, 5))]
                items = kin + items[:rng.randint(0, 2)]
                rng.shuffle(items)
        if rng.random() < 0.2:
            # a (synthetic) table-definition message somewhere in the stream: it is a message like any
            # other for splitting and filtering; its definitions concern ids no other message uses
            defs = [e for e in pool if 'D' in e['cls'] and e['src'] == 'synth']
            if defs:
                items.insert(rng.randint(0, len(items)), _item(rng.choice(defs)))
        if large and rng.random() < 0.04:
            items.insert(rng.randint(0, len(items)), _item(rng.choice(large)))
        seps = [gen_separator(rng)[1].hex() for _ in range(len(items) + 1)]
        if not items and rng.random() < 0.5:
            seps = ['']          # the stream of no messages and no octets at all (a file of length zero)
        front = rng.choice(['api', 'api', 'api', 'cli-decode', 'cli-info-m', 'cli-info-c', 'cli-split'])
        mode = 'info' if front in ('cli-info-m', 'cli-info-c', 'cli-split') else \
            ('full' if front == 'cli-decode' else rng.choice(MODES))
        flt = gen_filter(rng, items) if (front in ('api', 'cli-decode') and rng.random() < 0.4) else None
        if kin:
            front = rng.choice(['api', 'api', 'cli-decode'])
            mode = 'full' if front == 'cli-decode' else rng.choice(MODES)
            flt = gen_filter(rng, kin, among=OUTSIDE_1_3)
        knobs = {'mode': mode, 'coe': rng.random() < 0.5, 'front': front,
                 'compiled': rng.choice([None, None, 2, 0]) if front in ('api', 'cli-decode') else None,
                 'filter': flt}
        if kin:
            knobs['kin'] = True
        if front == 'api' and rng.random() < 0.25:
            knobs['wire'] = False       # no hierarchical structure is built (what decode -m does)
        if front == 'api' and flt and rng.random() < 0.2:
            knobs['script_first'] = True
        return {'knobs': knobs, 'items': items, 'seps': seps}

    if family == 'c11-big':
        # long streams (beyond 64 KiB, up to ~300 KB): whatever reads the input in pieces, buffers it or
        # keeps an offset meets its borders inside messages, also inside messages that hold a start
        # signature. A few distinct messages repeated (the plan stays small in memory).
        k = rng.randint(3, 9)
        emb = [e for e in pool if small(e) and ('B' in e['cls'] or 'S' in e['cls'])]
        base = _pick(rng, pool, k, small)
        embB = [e for e in emb if 'B' in e['cls']]
        if embB and rng.random() < 0.5:
            base = [rng.choice(embB) for _ in range(k)]      # every message holds a start signature
        elif emb:
            for j in range(rng.randint(1, max(1, k // 2))):
                base[j] = rng.choice(emb)
        base_items = [_item(e) for e in base]
        target = rng.choice([66000, 70000, 90000, 131500, 140000, 200000, 300000])
        items, size = [], 0
        p_sep = rng.choice([0.0, 0.0, 0.1, 0.5])
        seps = []
        while size < target and len(items) < 900:
            it = rng.choice(base_items)
            sep = gen_separator(rng)[1] if rng.random() < p_sep else b''
            seps.append(sep.hex())
            items.append(it)
            size += len(it['hex']) // 2 + len(sep)
        seps.append(gen_separator(rng)[1].hex() if rng.random() < 0.3 else '')
        front = rng.choice(['api', 'cli-split', 'cli-split', 'cli-info-c', 'cli-info-m'])
        mode = 'info' if front != 'api' else rng.choice(['info', 'info', 'full'])
        knobs = {'mode': mode, 'coe': rng.random() < 0.5, 'front': front, 'compiled': None, 'filter': None}
        return {'knobs': knobs, 'items': items, 'seps': seps}

    if family in ('c12', 'c12-eof'):
        eof = family == 'c12-eof'
        n = rng.choice([2, 2, 3, 3, 4, 5, 6, 8])
        # damaged messages must not contain an embedded start signature
        chosen = _pick(rng, pool, n, small)
        kinds_on = rng.sample(['stopsig', 'undef_el', 'undef_seq', 'len-', 'len+'], rng.randint(1, 5))
        p_dmg = rng.choice([0.2, 0.35, 0.5, 0.5, 0.7, 1.0])
        if eof:
            # the producer crashes while writing the last message: end of input at a seeded octet of it;
            # the messages before it are intact in most streams, damaged as usual in the others
            p_dmg = rng.choice([0.0, 0.0, 0.0, 0.2, 0.5])
        items = []
        # templates with 'data not present' (221YYY): an undefined descriptor inside its scope is still an
        # undefined descriptor. Such templates are rare in the pool; one stream in ten gets one on purpose
        dnp = [e for e in pool if small(e) and (e.get('opkind') or '').startswith('plain-ops') and
               _has_221(e) and bytes.fromhex(e['hex']).find(b'BUFR', 1) < 0]
        if dnp and not eof and rng.random() < 0.1:
            e = rng.choice(dnp)
            f = gen_stream_fault(rng, bytes.fromhex(e['hex']), ['undef_el', 'undef_el', 'undef_seq'])
            if f is not None:
                chosen = list(chosen)
                chosen[rng.randrange(len(chosen))] = None
                items_forced = _item(e, f)
            else:
                items_forced = None
        else:
            items_forced = None
        for e in chosen:
            if e is None:
                items.append(items_forced)
                continue
            fault = None
            raw = bytes.fromhex(e['hex'])
            if rng.random() < p_dmg and (raw.find(b'BUFR', 1) < 0 or (not eof and rng.random() < 0.6)):
                fault = gen_stream_fault(rng, raw, kinds_on)
                if fault is not None:
                    d = bufrgen.apply_fault(raw, fault)
                    if d == raw or _sig_positions(d) != _sig_positions(raw):
                        fault = None
            items.append(_item(e, fault))
        if eof:
            raw = bytes.fromhex(items[-1]['hex'])
            if raw.find(b'BUFR', 1) >= 0:
                return None
            w = bufrgen.walk(raw)
            edges = [5, 7, 8, len(raw) - 1, len(raw) - 2, len(raw) - 4, len(raw) - 5]
            for _k, (o, l) in w['sections'].items():
                edges += [o - 1, o, o + 1, o + 3, o + 4, o + l - 1]
            cut = rng.choice(edges) if rng.random() < 0.4 else rng.randrange(5, len(raw))
            if not (5 <= cut < len(raw)):
                return None
            items[-1]['fault'] = {'kind': 'trunc', 'cut': cut}
        if not any(it['fault'] for it in items):
            return None
        seps = [gen_separator(rng)[1].hex() for _ in range(len(items) + 1)]
        if eof:
            seps[-1] = ''
        elif rng.random() < 0.2:
            # a section 4 length increased so that the declared lengths lead exactly onto the stop signature
            # of the NEXT message (or onto a 7777 that the separator holds): alone the damaged message runs
            # off the input, in the stream it would swallow its successor
            cand = [i for i in range(len(items)) if bytes.fromhex(items[i]['hex']).find(b'BUFR', 1) < 0 and
                    (items[i]['fault'] is None or items[i]['fault']['kind'] == 'len')]
            if cand:
                i = rng.choice(cand)
                if i + 1 < len(items) and items[i + 1]['fault'] is None and rng.random() < 0.75:
                    delta = len(seps[i + 1]) // 2 + len(items[i + 1]['hex']) // 2
                else:
                    filler = bytes(rng.randrange(256) for _ in range(rng.choice([0, 0, 1, 2, 5])))
                    if b'BUFR' in filler + b'7777':
                        filler = b''
                    seps[i + 1] = (filler + b'7777').hex() + seps[i + 1]
                    delta = len(filler) + 4
                if b'BUFR' not in bytes.fromhex(seps[i + 1]):
                    items[i]['fault'] = {'kind': 'len', 'section': 4, 'delta': delta}
        front = rng.choice(['api', 'api', 'api', 'api', 'cli-decode', 'cli-info-m', 'cli-info-c', 'cli-split'])
        mode = 'info' if front in ('cli-info-m', 'cli-info-c', 'cli-split') else \
            ('full' if front == 'cli-decode' else rng.choice(['full', 'full', 'info']))
        knobs = {'mode': mode, 'coe': rng.random() < 0.7, 'front': front,
                 'compiled': rng.choice([None, None, None, 2]) if front in ('api', 'cli-decode') else None,
                 'filter': None}
        if knobs['coe'] and front in ('api', 'cli-decode') and rng.random() < 0.3:
            # a filter on top of continue-on-error (the filter pre-pass decodes headers of damaged messages too)
            knobs['filter'] = gen_filter(rng, items)
        if front == 'api' and rng.random() < 0.25:
            # the decoder is not new: it has decoded another (valid) message before, in one of the modes
            knobs['warm'] = {'how': rng.choice(['full', 'info', 'ive']),
                             'hex': rng.choice([x for x in pool if small(x)])['hex']}
        if front == 'api' and rng.random() < 0.3:
            knobs['wire'] = False       # no hierarchical structure is built (what decode -m does)
        return {'knobs': knobs, 'items': items, 'seps': seps}

    if family == 'c12-enum':
        # fault enumeration proper: for one sampled message A next to an intact message B, EVERY fault of
        # the named kinds at EVERY position (each descriptor position x {undefined element, undefined
        # sequence}; each section x each length delta; stop-signature variants), one scan per fault
        tiny = lambda e: small(e) and e['adm']['full']['n'] <= 1500 and 'B' not in e['cls']
        a, b = _pick(rng, pool, 2, tiny)
        carriers = [e for e in pool if small(e) and e['adm']['full']['n'] <= 1500 and 'B' in e['cls']]
        if carriers and rng.random() < 0.15:
            a = rng.choice(carriers)        # the damaged message holds a start signature (perhaps a whole message)
        dnp = [e for e in pool if tiny(e) and (e.get('opkind') or '').startswith('plain-ops') and _has_221(e)]
        if dnp and rng.random() < 0.15:
            a = rng.choice(dnp)
        raw = bytes.fromhex(a['hex'])
        w = bufrgen.walk(raw)
        faults = [{'kind': 'stopsig', 'bytes': x} for x in ('37373738', '00000000', '37373700', '37377b37', '7b7d3737',
                                                            '25732564')]
        uel, useq = bufrgen.undefined_element_ids(), bufrgen.undefined_sequence_ids()
        for p in range(len(w['ids'])):
            faults.append({'kind': 'undef', 'pos': p, 'id': rng.choice(uel), 'sub': 'undef_el'})
            faults.append({'kind': 'undef', 'pos': p, 'id': rng.choice(useq), 'sub': 'undef_seq'})
        for sid in bufrgen.special_undefined_element_ids():
            # ids at the edges of the id space at the two ends of the list
            for p in sorted(set([0, len(w['ids']) - 1])):
                if w['ids']:
                    faults.append({'kind': 'undef', 'pos': p, 'id': sid, 'sub': 'undef_el'})
        for sec in sorted(w['sections']):
            l = w['sections'][sec][1]
            for k in sorted(set([1, 2, 3, 4, 8, max(1, l // 2)])):
                if l - k >= 0:
                    faults.append({'kind': 'len', 'section': sec, 'delta': -k})
                faults.append({'kind': 'len', 'section': sec, 'delta': k})
        front = rng.choice(['api', 'api', 'api', 'api', 'cli-decode', 'cli-info-m', 'cli-split'])
        mode = 'info' if front in ('cli-info-m', 'cli-split') else ('full' if front == 'cli-decode' else
                                                                     rng.choice(['full', 'full', 'info']))
        order = rng.choice(['AB', 'AB', 'BA', 'BAB'])
        seps = [gen_separator(rng)[1].hex() if rng.random() < 0.4 else '' for _ in range(4)]
        # the one increase of every section length that leads the declared lengths exactly onto the stop
        # signature of the message that follows A (none follows in the order BA)
        ia = order.index('A')
        if ia + 1 < len(order):
            for sec in sorted(w['sections']):
                faults.append({'kind': 'len', 'section': sec, 'delta': len(seps[ia + 1]) // 2 + len(b['hex']) // 2})
        faults = [f for f in faults if bufrgen.apply_fault(raw, f) != raw and
                  _sig_positions(bufrgen.apply_fault(raw, f)) == _sig_positions(raw)]
        kn = {'mode': mode, 'coe': rng.random() < 0.85, 'front': front, 'compiled': None, 'filter': None, 'order': order}
        if front == 'api' and rng.random() < 0.4:
            kn['wire'] = False
        return {'knobs': kn, 'items': [_item(a), _item(b)], 'faults': faults, 'seps': seps}

    if family == 'c12-trunc':
        lim = 1000 if tier == 'quick' else 6000
        e = rng.choice([x for x in pool if no_defs(x)])
        n = e['adm']['full']['n']
        if n <= lim:
            cuts = list(range(0, n))
            exhaustive = True
        else:
            w = bufrgen.walk(bytes.fromhex(e['hex']))
            edges = set([0, 1, 3, 4, 7, 8, n - 1, n - 2, n - 3, n - 4, n - 5])
            for _k, (o, l) in w['sections'].items():
                edges.update([o - 1, o, o + 1, o + 2, o + 3, o + 4, o + l - 1])
            edges.update(rng.randrange(n) for _ in range(300 if tier == 'quick' else 1500))
            cuts = sorted(c for c in edges if 0 <= c < n)
            exhaustive = False
        return {'knobs': {'compiled': rng.choice([None, None, 2])}, 'items': [_item(e)], 'cuts': cuts,
                'exhaustive': exhaustive}

    if family == 'c12-tail':
        e = rng.choice([x for x in pool if small(x)])
        kind = rng.choice(['noise', 'msg', 'sig', 'stop', 'partial', 'same', 'zeros'])
        if kind == 'noise':
            tail = bytes(rng.randrange(256) for _ in range(rng.randint(1, 200)))
        elif kind == 'msg':
            tail = bytes.fromhex(rng.choice([x for x in pool if small(x)])['hex'])
        elif kind == 'same':
            tail = bytes.fromhex(e['hex'])
        elif kind == 'sig':
            tail = b'BUFR' + bytes(rng.randrange(256) for _ in range(rng.randint(0, 40)))
        elif kind == 'stop':
            tail = b'7777' * rng.randint(1, 3)
        elif kind == 'zeros':
            tail = bytes([rng.choice([0, 255])]) * rng.randint(1, 300)
        else:
            tail = rng.choice([b'B', b'BUF', b'7', b'777'])
        return {'knobs': {'compiled': rng.choice([None, None, 2]), 'tail_kind': kind}, 'items': [_item(e)],
                'tail': tail.hex()}

    if family == 'c17':
        e = rng.choice(synth_defs) if (synth_defs and rng.random() < 0.1) else rng.choice([x for x in pool if small(x)])
        if large and rng.random() < 0.04:
            e = rng.choice(large)
        raw = bytes.fromhex(e['hex'])
        fault = gen_data_damage(rng, raw, alone=True) if rng.random() < 0.85 else None
        it = _item(e, fault)
        it['adm_info'] = e['adm']['info']['params']
        it['truth'] = e.get('truth', {}).get('header') if e.get('truth') else None
        it['truth_len'] = e.get('truth', {}).get('section_lengths') if e.get('truth') else None
        return {'knobs': {}, 'items': [it], 'exprs': gen_md_exprs(rng)}

    if family == 'c17-multi':
        # one Decoder and ONE querent object used over several messages (with and without section 2,
        # several editions, metadata-only and full decodes interleaved)
        items = []
        picked = _pick(rng, pool, rng.randint(2, 5), small)
        if synth_defs and rng.random() < 0.2:
            picked[rng.randrange(len(picked))] = rng.choice(synth_defs)
        for e in picked:
            raw = bytes.fromhex(e['hex'])
            how = rng.choice(['info', 'info', 'full', 'full_ive'])
            fault = gen_data_damage(rng, raw) if (how == 'info' and rng.random() < 0.5) else None
            it = _item(e, fault)
            it['how'] = how
            it['exprs'] = gen_md_exprs(rng)[:6]
            items.append(it)
        return {'knobs': {}, 'items': items}

    if family == 'c17-stream':
        n = rng.choice([1, 2, 2, 3, 4, 5, 6])
        items = []
        emb = rng.random() < 0.35       # bias to messages whose body holds a start signature
        picked = _pick(rng, pool, n, (lambda x: small(x) and ('B' in x['cls'] or rng.random() < 0.3)) if emb else small)
        if synth_defs and rng.random() < 0.3:
            picked.insert(rng.randint(0, len(picked)), rng.choice(synth_defs))
        if large and rng.random() < 0.06:
            picked.insert(rng.randint(0, len(picked)), rng.choice(large))
        for e in picked:
            raw = bytes.fromhex(e['hex'])
            fault = gen_data_damage(rng, raw) if (rng.random() < 0.6 and raw.find(b'BUFR', 1) < 0) else None
            items.append(_item(e, fault))
        seps = [gen_separator(rng)[1].hex() for _ in range(len(items) + 1)]
        if len(items) >= 2 and rng.random() < 0.3:
            # a container: message i declares a total length that ends where message i+count ends
            i = rng.randrange(len(items) - 1)
            cnt = rng.randint(1, len(items) - 1 - i)
            if not any(it.get('fault') for it in items[i:i + cnt + 1]):
                items[i]['fault'] = {'kind': 'total', 'count': cnt}
        front = rng.choice(['api', 'api', 'cli-info-m', 'cli-info-c', 'cli-split'])
        return {'knobs': {'mode': 'info', 'coe': rng.random() < 0.5, 'front': front, 'compiled': None,
                          'filter': None}, 'items': items, 'seps': seps}
    raise ValueError(family)


MD_NAMES = ['length', 'edition', 'section_length', 'master_table_number', 'originating_centre',
            'originating_subcentre', 'update_sequence_number', 'is_section2_presents', 'flag_bits',
            'data_category', 'data_i18n_subcategory', 'data_local_subcategory', 'master_table_version',
            'local_table_version', 'year', 'month', 'day', 'hour', 'minute', 'second', 'reserved_bits',
            'local_bits', 'n_subsets', 'is_observation', 'is_compressed', 'unexpanded_descriptors',
            'start_signature', 'stop_signature', 'template_data', 'no_such_name']


def gen_md_exprs(rng):
    out = []
    for _ in range(12):
        name = rng.choice(MD_NAMES)
        r = rng.random()
        if r < 0.45:
            out.append('%' + name)
        elif r < 0.85:
            out.append('%%%d.%s' % (rng.choice([0, 1, 2, 3, 4, 5, 6, 9, 10, 77, 255, 1000]), name))
        elif r < 0.90:
            out.append(' %' + name + ' ')
        elif r < 0.95:
            out.append(rng.choice([name, '$' + name, '%x.' + name, '%1a.' + name, '%-.' + name, '', '   ',
                                   '1.' + name, '%.' + name]))
        else:
            # odd forms: more than one dot, signed indices, characters that some notion of 'digit' accepts
            # and int() may not. Where every reading gives a non-numeric index the parsing error is
            # demanded; for the others only that nothing but an answer or the parsing error comes back
            out.append(rng.choice(['%1.2.' + name, '%..' + name, '%a.b.' + name, '%3.' + name + '.x', '%x.1.' + name,
                                   '%-1.' + name, '%+1.' + name, '%1_0.' + name, u'%\u00b2.' + name,
                                   u'%\u2460.' + name, u'%\u0661.' + name, u'%\u1369.' + name, '%1.', '%.',
                                   '% 1.' + name, '%1 .' + name, '%0x1.' + name, '%1e0.' + name, '%1.0.' + name]))
    return out


# ----------------------------------------------------------------------------
# executor (runs in a forked child)
def run_cli(argv, files):
    """pybufrkit.main() in-process on REAL files in a scratch directory of its own (current directory for
    the duration of the call; relative names, so nothing in the trace depends on where it lives) -> dict.
    Real files rather than an in-memory stand-in for `open`: an implementation is free to read its input
    with mmap or os-level calls."""
    import os
    import shutil
    import tempfile
    import pybufrkit
    from sim.observe import exc_info
    tmp = tempfile.mkdtemp(prefix='verif-cli-')
    cwd = os.getcwd()
    old = sys.argv, sys.stdout, sys.stderr
    exc = None
    out = err = ''
    written = []
    try:
        for name, data in files.items():
            with open(os.path.join(tmp, name), 'wb') as f:
                f.write(data)
        os.chdir(tmp)
        sys.argv = ['pybufrkit'] + list(argv)
        sys.stdout, sys.stderr = io.StringIO(), io.StringIO()
        try:
            pybufrkit.main()
        except SystemExit as e:
            exc = {'type': 'SystemExit', 'lib': False, 'site': None, 'msg': str(e.code)}
        except core.StepBudgetExceeded:
            raise
        except BaseException as e:
            exc = exc_info(e)
            exc['msg'] = exc['msg'].replace(tmp, '<tmp>')
        out, err = sys.stdout.getvalue(), sys.stderr.getvalue()
        # files created or changed by the command, in the order `split` numbers them
        names = [n for n in os.listdir(tmp)]

        def order(n):
            head, _, tail = n.rpartition('.')
            return (head, int(tail)) if tail.isdigit() else (n, -1)
        for n in sorted(names, key=order):
            with open(os.path.join(tmp, n), 'rb') as f:
                data = f.read()
            if n not in files or files[n] != data:
                written.append([n, _h(data), len(data)])
    finally:
        sys.argv, sys.stdout, sys.stderr = old
        os.chdir(cwd)
        shutil.rmtree(tmp, ignore_errors=True)
    return {'stdout': out.replace(tmp, '<tmp>'), 'stderr': err.replace(tmp, '<tmp>'), 'exc': exc, 'written': written}


def execute(plan):
    from sim.observe import install_step_budget
    install_step_budget()
    fam = plan['family']
    if fam in ('c11', 'c12', 'c17-stream'):
        return exec_stream(plan)
    if fam == 'c12-enum':
        out = []
        for sub in enum_subplans(plan):
            if sub is None:
                out.append(None)
            else:
                out.append(core.run_in_child(exec_stream, sub, 300))    # one pristine process per fault
        return {'subs': out}
    if fam == 'c12-trunc':
        return exec_trunc(plan)
    if fam == 'c12-tail':
        return exec_tail(plan)
    if fam == 'c17':
        return exec_c17(plan)
    if fam == 'c17-multi':
        return exec_c17_multi(plan)
    if fam == 'c11-admit':
        # one message written by the independent writer, alone in a stream, both scanning modes
        from pybufrkit.decoder import Decoder, generate_bufr_message
        from sim.observe import exc_info, quiet_std
        quiet_std()
        raw = bytes.fromhex(plan['items'][0]['hex'])
        out = {}
        for mode in ('full', 'info'):
            try:
                ms = list(generate_bufr_message(Decoder(), raw, info_only=(mode == 'info')))
                out[mode] = [[_h(bytes(m.serialized_bytes)), len(m.serialized_bytes)] for m in ms]
            except Exception as e:
                out[mode] = {'exc': exc_info(e)}
        return out
    if fam == 'c17-admit':
        from sim.observe import admit
        r = admit({'hex': plan['items'][0]['hex']})
        return {'full_ok': 'full' in r, 'info_ok': 'info' in r, 'info_error': r.get('info_error')}
    raise ValueError(fam)


core.register('streamsim', execute)


def enum_subplans(plan):
    """the c12 stream plans a c12-enum plan stands for (None where the guards reject the layout)"""
    a, b = plan['items']
    order = plan['knobs'].get('order', 'AB')
    out = []
    for f in plan['faults']:
        items = []
        for ch in order:
            it = dict(a if ch == 'A' else b)
            it['fault'] = f if ch == 'A' else None
            items.append(it)
        sub = {'engine': 'streamsim', 'family': 'c12', 'seed': plan.get('seed', 0),
               'knobs': dict((k, v) for k, v in plan['knobs'].items() if k != 'order'),
               'items': items, 'seps': plan['seps'][:len(items) + 1]}
        out.append(sub if finalize(sub)['ok'] else None)
    return out


def exec_stream(plan):
    from pybufrkit.decoder import Decoder, generate_bufr_message
    from sim.observe import digest_message, exc_info, quiet_std, install_step_budget
    install_step_budget()
    lay = finalize(plan)
    stream = lay['stream']
    kn = plan['knobs']
    tr = {'deliveries': [], 'exc': None, 'probes': {}}
    front = kn['front']
    if front == 'api':
        quiet_std()
        dec = Decoder(compiled_template_cache_max=kn.get('compiled'))
        if kn.get('warm'):
            wm = kn['warm']
            dec.process(bytes.fromhex(wm['hex']), info_only=(wm['how'] == 'info'),
                        ignore_value_expectation=(wm['how'] == 'ive'))
        if kn.get('script_first') and kn.get('filter') and plan['items']:
            # somebody tried the text of the filter out as a script before (pybufrkit script, same process):
            # whatever the script machinery remembers about a text must not reach the filter of the scan
            try:
                from pybufrkit.script import ScriptRunner
                m0 = Decoder().process(bytes.fromhex(plan['items'][0]['hex']), info_only=True)
                ScriptRunner(kn['filter']['expr']).run(m0)
                ScriptRunner('x = ' + kn['filter']['expr']).run(m0)
            except Exception:
                pass
        from sim.observe import section_params
        kept = []
        try:
            for m in generate_bufr_message(dec, stream, info_only=(kn['mode'] == 'info'),
                                           continue_on_error=kn['coe'],
                                           filter_expr=kn['filter']['expr'] if kn.get('filter') else None,
                                           **({} if kn.get('wire', True) else {'wire_template_data': False})):
                full = kn['mode'] == 'full' and hasattr(m, 'template_data')
                d = digest_message(m, full)
                d['p'] = _h(json.dumps(section_params(m, 3)).encode())
                tr['deliveries'].append(d)
                if len(lay['stream']) < 70000:
                    kept.append((m, full))
        except Exception as e:
            tr['exc'] = exc_info(e)
        # the delivered objects are looked at again when the scan is over (a caller may collect them in a
        # list): what a message says about itself must not change because later messages were read
        late = []
        for m, full in kept:
            try:
                d = digest_message(m, full)
                d['p'] = _h(json.dumps(section_params(m, 3)).encode())
            except Exception as e:
                d = {'exc': exc_info(e)['type']}
            late.append(d)
        tr['late_same'] = [a == b for a, b in zip(tr['deliveries'], late)] if kept else None
        tr['stderr_skips'] = sys.stderr.getvalue().count('Continuing on next message')
        return tr
    name = 'in.bufr'
    if front == 'cli-decode':
        argv = ['decode', '-m']
        if kn.get('compiled') is not None:
            argv += ['--compiled-template-cache-max', str(kn['compiled'])]
        if kn.get('filter'):
            argv += ['--filter', kn['filter']['expr']]
    elif front == 'cli-info-m':
        argv = ['info', '-m']
    elif front == 'cli-info-c':
        argv = ['info', '-c']
    elif front == 'cli-split':
        argv = ['split']
    else:
        raise ValueError(front)
    if kn['coe']:
        argv.append('--continue-on-error')
    argv.append(name)
    r = run_cli(argv, {name: stream})
    tr['exc'] = r['exc']
    tr['cli'] = {'stderr': r['stderr'][-600:], 'written': r['written'],
                 'lengths': [int(l.split('=')[1]) for l in r['stdout'].splitlines() if l.startswith('length = ')],
                 'count_line': [l for l in r['stdout'].splitlines() if l.startswith(name + ':')][:3],
                 'printed': [l for l in r['stdout'].splitlines() if l.startswith(name + '.')][:20]}
    tr['stderr_skips'] = r['stderr'].count('Continuing on next message')
    return tr


def exec_trunc(plan):
    from pybufrkit.decoder import Decoder
    from sim.observe import exc_info, quiet_std
    quiet_std()
    raw = bytes.fromhex(plan['items'][0]['hex'])
    dec = Decoder(compiled_template_cache_max=plan['knobs'].get('compiled'))
    types = {}
    decoded = []
    info_ok = 0
    from sim.observe import reset_step_budget
    for c in plan['cuts']:
        reset_step_budget()          # the step budget is per decode here
        try:
            dec.process(raw[:c])
            decoded.append(c)
        except Exception as e:
            x = exc_info(e)
            key = '%s|%s|%s' % (x['type'], 'lib' if x['lib'] else 'foreign', x['site'])
            types[key] = types.get(key, 0) + 1
        try:
            dec.process(raw[:c], info_only=True)
            info_ok += 1
        except Exception:
            pass
    # the whole message still decodes afterwards, by the same decoder
    try:
        dec.process(raw)
        whole = True
    except Exception as e:
        whole = exc_info(e)
    return {'decoded_cuts': decoded, 'types': types, 'info_ok': info_ok, 'whole': whole, 'n': len(plan['cuts'])}


def exec_tail(plan):
    from pybufrkit.decoder import Decoder
    from sim.observe import digest_message, exc_info, quiet_std
    quiet_std()
    raw = bytes.fromhex(plan['items'][0]['hex'])
    dec = Decoder(compiled_template_cache_max=plan['knobs'].get('compiled'))
    try:
        m = dec.process(raw + bytes.fromhex(plan['tail']))
        return {'d': digest_message(m, True), 'exc': None}
    except Exception as e:
        return {'d': None, 'exc': exc_info(e)}


def exec_c17(plan):
    from pybufrkit.decoder import Decoder
    from pybufrkit.mdquery import MetadataExprParser, MetadataQuerent
    from sim.observe import canon, exc_info, quiet_std, section_params
    quiet_std()
    it = plan['items'][0]
    raw = bytes.fromhex(it['hex'])
    dmg = bufrgen.apply_fault(raw, it['fault']) if it.get('fault') else raw
    out = {'info': None, 'exc': None, 'full': None, 'q': []}
    dec = Decoder()
    try:
        m = dec.process(dmg, info_only=True)
        out['info'] = section_params(m, 3)
        out['n'] = len(m.serialized_bytes)
        out['has_data'] = any(p.type == 'template_data' for s in m.sections for p in s)
        out['max_section'] = max(s.get_metadata('index') for s in m.sections)
        q = MetadataQuerent(MetadataExprParser())
        for ex in plan.get('exprs', []):
            try:
                out['q'].append([ex, 'ok', canon(q.query(m, ex))])
            except Exception as e:
                out['q'].append([ex, 'err', exc_info(e)])
        # what the sections really hold, to resolve expected answers independently of the querent
        out['sections'] = [[s.get_metadata('index'), [[p.name, canon(p.value)] for p in s]] for s in m.sections]
    except Exception as e:
        out['exc'] = exc_info(e)
    try:
        mf = dec.process(dmg)
        out['full'] = 'ok'
    except Exception as e:
        mf = None
        out['full'] = exc_info(e)['type']
    # the lookup clauses hold for any message object: ask the fully decoded (undamaged) message too,
    # where sections 4 and 5 exist
    try:
        mf = mf if (mf is not None and not it.get('fault')) else Decoder().process(raw)
        q = MetadataQuerent(MetadataExprParser())
        out['fsections'] = [[s.get_metadata('index'), [[p.name, canon(p.value) if p.type != 'template_data' else '<td>']
                                                       for p in s]] for s in mf.sections]
        out['fq'] = []
        for ex in plan.get('exprs', []):
            try:
                v = q.query(mf, ex)
                out['fq'].append([ex, 'ok', canon(v) if type(v).__name__ != 'TemplateData' else '<td>'])
            except Exception as e:
                out['fq'].append([ex, 'err', exc_info(e)])
    except Exception as e:
        out['fq_exc'] = exc_info(e)
    # the same lookups through the command line (`query`, `script`) on the UNDAMAGED message: every
    # consumer of a metadata expression follows the same rule. (Whether those commands decode
    # metadata-only is not a clause of the property, so they are not run on damaged data.)
    out['cli'] = []
    for k, ex in enumerate([e for e in plan.get('exprs', []) if e.strip().startswith('%')][:3]):
        r = run_cli(['query', ex, 'in.bufr'], {'in.bufr': raw})
        lines = r['stdout'].splitlines()
        out['cli'].append([ex, 'query', lines[1] if len(lines) > 1 else None, bool(r['stderr'].strip()), r['exc']])
        inner = [ex, ' ' + ex + ' ', ex + '  '][k % 3]
        r = run_cli(['script', 'a = ${%s}\nprint(repr(a))' % inner, 'in.bufr'], {'in.bufr': raw})
        lines = r['stdout'].splitlines()
        out['cli'].append([ex, 'script', lines[0] if lines else None, bool(r['stderr'].strip()), r['exc']])
    return out


def exec_c17_multi(plan):
    from pybufrkit.decoder import Decoder
    from pybufrkit.mdquery import MetadataExprParser, MetadataQuerent
    from sim.observe import canon, exc_info, quiet_std
    quiet_std()
    dec = Decoder()
    q = MetadataQuerent(MetadataExprParser())
    out = []
    kept = []
    from sim.observe import reset_step_budget
    for it in plan['items']:
        reset_step_budget()
        raw = bytes.fromhex(it['hex'])
        dmg = bufrgen.apply_fault(raw, it['fault']) if it.get('fault') else raw
        r = {'exc': None, 'q': [], 'sections': None}
        kept.append(None)
        try:
            m = dec.process(dmg, info_only=(it['how'] == 'info'),
                            ignore_value_expectation=(it['how'] == 'full_ive'))
            kept[-1] = m
            r['sections'] = [[s.get_metadata('index'), [[p.name, canon(p.value) if p.type != 'template_data' else '<td>']
                                                        for p in s]] for s in m.sections]
            for ex in it['exprs']:
                try:
                    v = q.query(m, ex)
                    r['q'].append([ex, 'ok', canon(v) if type(v).__name__ != 'TemplateData' else '<td>'])
                except Exception as e:
                    r['q'].append([ex, 'err', exc_info(e)])
        except Exception as e:
            r['exc'] = exc_info(e)
        out.append(r)
    # every message object is asked again after all of them have been decoded: an answer is about the
    # message at hand, whatever the decoder and the querent have seen since
    for it, r, m in zip(plan['items'], out, kept):
        if m is None:
            continue
        try:
            secs = [[s.get_metadata('index'), [[p.name, canon(p.value) if p.type != 'template_data' else '<td>']
                                                for p in s]] for s in m.sections]
            lq = []
            for ex in it['exprs']:
                try:
                    v = q.query(m, ex)
                    lq.append([ex, 'ok', canon(v) if type(v).__name__ != 'TemplateData' else '<td>'])
                except Exception as e:
                    x = exc_info(e)
                    lq.append([ex, 'err', {'type': x['type']}])
            r['late_same'] = secs == r['sections'] and \
                [[a, b, c if b == 'ok' else c['type']] for a, b, c in lq] == \
                [[a, b, c if b == 'ok' else c['type']] for a, b, c in r['q']]
        except Exception as e:
            r['late_same'] = False
    return {'per': out}


# ----------------------------------------------------------------------------
# oracles: (plan, trace) -> list of violation signatures (dicts)
def _match(deliv, slots):
    """deliv: list of digests; slots: list of (digest, status) status in req/opt/no.
    True iff deliveries map to strictly increasing slots with equal digests, covering every
    'req' slot and no 'no' slot."""
    nd, ns = len(deliv), len(slots)
    memo = {}

    def go(i, j):
        if (i, j) in memo:
            return memo[(i, j)]
        if i == nd:
            r = all(s[1] != 'req' for s in slots[j:])
        elif j == ns:
            r = False
        else:
            r = False
            if slots[j][1] != 'no' and slots[j][0] == deliv[i] and go(i + 1, j + 1):
                r = True
            elif slots[j][1] != 'req' and go(i, j + 1):
                r = True
        memo[(i, j)] = r
        return r
    return go(0, 0)


def _fault_kinds(plan):
    ks = sorted(set(_fk(it['fault']) for it in plan['items'] if it.get('fault')))
    return '+'.join(ks) if ks else None


def _fk(f):
    if f['kind'] == 'len':
        return 'len%s%d' % ('+' if f['delta'] > 0 else '-', f['section'])
    if f['kind'] == 'undef':
        return f.get('sub', 'undef')
    if f['kind'] == 'trunc':
        return 'eof'
    if f['kind'] == 'total':
        return 'container'
    return f['kind']


def _exc_sig(prop, clause, plan, exc, extra=None):
    s = {'property': prop, 'clause': clause, 'exc_type': exc['type'], 'raise_site': exc['site']}
    fk = _fault_kinds(plan)
    if fk:
        s['fault_kind'] = fk
    if extra:
        s.update(extra)
    return s


def deliveries_of(plan, tr):
    """digests of delivered messages in order, whatever the front end -> (list of (b, n)), or None
    when the front end only tells a count / lengths."""
    front = plan['knobs']['front']
    if front == 'api':
        return [(d['b'], d['n']) for d in tr['deliveries']]
    if front == 'cli-split':
        return [(w[1], w[2]) for w in tr['cli']['written']]
    return None


def oracle_stream(plan, tr, prop):
    lay = finalize(plan)
    segs = lay['segs']
    kn = plan['knobs']
    mode, coe, front = kn['mode'], kn['coe'], kn['front']
    out = []
    fam = plan['family']
    flt = kn.get('filter')

    def keep(s):
        return (not flt) or filter_expected(flt, s['orig'])

    # ---- expected slots
    slots = []
    declared = []      # what a front end that only prints lengths shows: the declared total length
    for s in segs:
        dg = (_h(s['bytes']), len(s['bytes']))
        declared.append(len(s['orig']))
        if s.get('swallowed'):
            slots.append((dg, 'no'))           # lies inside the declared extent of a container message
        elif s.get('span_end'):
            span = lay['stream'][s['start']:s['span_end']]
            declared[-1] = len(span)
            slots.append(((_h(span), len(span)), 'req'))
        elif not s['damaged']:
            slots.append((dg, 'req' if keep(s) else 'no'))
        elif fam == 'c17-stream':
            slots.append((dg, 'req'))          # data damage is invisible to a metadata-only scan
        elif mode == 'info':
            slots.append((dg, 'opt'))          # declared span of a damaged message is tolerated
        else:
            slots.append((dg, 'no' if s['must_skip'] else 'opt'))

    exc = tr.get('exc')
    deliv = deliveries_of(plan, tr)
    clause_lost = {'c11': 'C11.a', 'c12': 'C12.c' if mode == 'full' else 'C12.d', 'c17-stream': 'C17.e'}[fam]
    if flt and fam == 'c11':
        clause_lost = 'C11.d'
    base = {'property': prop, 'mode': mode, 'front': front}
    fk = _fault_kinds(plan)
    if fk:
        base['fault_kind'] = fk

    has_dmg = any(s['damaged'] for s in segs) and fam != 'c17-stream'

    if front.startswith('cli') and exc is not None:
        # nothing may escape main(): the command line reports errors without a traceback
        out.append(_exc_sig(prop, 'C12.e-cli-traceback' if has_dmg else clause_lost + '-cli-traceback', plan, exc,
                            {'front': front, 'mode': mode}))
        return out

    if not has_dmg or coe:
        # the whole stream must be processed
        if exc is not None and not front.startswith('cli'):
            cl = ('C12.c-escape' if mode == 'full' else 'C12.d-escape') if has_dmg else clause_lost + '-raise'
            out.append(_exc_sig(prop, cl, plan, exc, {'mode': mode, 'front': front, 'lib': exc['lib']}))
            return out
        if front.startswith('cli') and not has_dmg and tr['cli']['stderr'].strip():
            out.append(dict(base, clause=clause_lost + '-cli-stderr'))
            return out
        out.extend(_check_deliveries(plan, tr, slots, deliv, base, clause_lost, declared))
        if fam != 'c12' and not out:
            # content of each delivered message equals its lone decode (full mode, api)
            # (an interpreting decoder only: what compilation changes is C08's business, not C11's)
            if front == 'api' and mode == 'full' and kn.get('compiled') is None:
                exp = [it['adm'] for it, s in zip(plan['items'], segs) if (not s['damaged']) and keep(s)]
                got = tr['deliveries']
                for e, g in zip(exp, got):
                    if any(g.get(k) != e[k] for k in ('v', 'l', 'k')):
                        out.append(dict(base, clause='C11.c'))
                        break
        elif fam == 'c12' and not out and front == 'api' and mode == 'full' and kn.get('compiled') is None:
            und = dict(((it['adm']['b']), it['adm']) for it, s in zip(plan['items'], segs) if not s['damaged'])
            for g in tr['deliveries']:
                e = und.get(g['b'])
                if e and any(g.get(k) != e[k] for k in ('v', 'l', 'k')):
                    out.append(dict(base, clause='C12.c-content'))
                    break
        return out

    # ---- damaged stream without continue-on-error (C12.e)
    # deliveries = slots[0:j] where every damaged slot before j was tolerated; failure at j is a library error
    if exc is not None and not exc['lib']:
        out.append(_exc_sig(prop, 'C12.e-foreign', plan, exc, {'mode': mode, 'front': front}))
        return out
    ok = False
    dl = deliv
    if dl is None:
        dl = _cli_lengths(plan, tr)
        slots_cmp = [(n, s[1]) for s, n in zip(slots, declared)]
    else:
        slots_cmp = slots
    if front == 'cli-info-c':
        # count only: printed count must be that of a consistent prefix
        ok = _count_consistent(tr, slots, stopped=True)
    else:
        for j in range(len(slots) + 1):
            pre = slots_cmp[:j]
            if any(s[1] == 'no' for s in pre):
                break
            if [s[0] for s in pre] == list(dl):
                if j == len(slots):
                    ok = (exc is None) and (not front.startswith('cli') or True)
                else:
                    failed_here = slots[j][1] != 'req'   # only a damaged message may fail
                    # end of input inside the last message: the property does not say that this must be
                    # reported, only that the partial message is not delivered and nothing foreign escapes
                    eof_here = (segs[j].get('fault') or {}).get('kind') == 'trunc'
                    if front.startswith('cli'):
                        ok = failed_here and (eof_here or 'Error' in tr['cli']['stderr'])
                    else:
                        ok = failed_here and ((exc is not None and exc['lib']) or (eof_here and exc is None))
                if ok:
                    break
    if not ok:
        out.append(dict(base, clause='C12.e', exc_type=(exc or {}).get('type'),
                        raise_site=(exc or {}).get('site')))
    return out


def _cli_lengths(plan, tr):
    return tr['cli']['lengths']


def _count_consistent(tr, slots, stopped):
    cl = tr['cli']['count_line']
    if not cl:
        # the count line is printed only when the scan completes
        return stopped and 'Error' in tr['cli']['stderr']
    try:
        n = int(cl[0].split(':')[1])
    except Exception:
        return False
    lo = sum(1 for s in slots if s[1] == 'req')
    hi = sum(1 for s in slots if s[1] != 'no')
    return lo <= n <= hi


def _check_deliveries(plan, tr, slots, deliv, base, clause, declared):
    front = plan['knobs']['front']
    if front == 'cli-info-c':
        return [] if _count_consistent(tr, slots, stopped=False) else [dict(base, clause=clause + '-count')]
    if deliv is None:
        dl = _cli_lengths(plan, tr)
        if not _match(list(dl), [(n, s[1]) for s, n in zip(slots, declared)]):
            return [dict(base, clause=clause)]
        return []
    if not _match(list(deliv), slots):
        return [dict(base, clause=clause)]
    if front == 'cli-split':
        names = [w[0] for w in tr['cli']['written']]
        if names != ['in.bufr.%d' % i for i in range(len(names))] or tr['cli']['printed'] != names[:20]:
            return [dict(base, clause=clause + '-names')]
    return []


def oracle(plan, tr):
    fam = plan['family']
    if fam in ('c11', 'c12', 'c17-stream'):
        prop = {'c11': 'C11', 'c12': 'C12', 'c17-stream': 'C17'}[fam]
        out = oracle_stream(plan, tr, prop)
        if not out and tr.get('late_same') and not all(tr['late_same']):
            # a delivered message object answers differently once later messages have been read
            out.append({'property': prop, 'clause': prop + '.delivered-message-changes-afterwards',
                        'mode': plan['knobs']['mode']})
        return out
    if fam == 'c12-enum':
        out = []
        for sub, st in zip(enum_subplans(plan), tr['subs']):
            if sub is None or st is None or st.get('budget_exceeded'):
                continue
            for sig in oracle_stream(sub, st, 'C12'):
                sig = dict(sig, enum=True)
                if not any(_sig_eq(sig, o) for o in out):
                    out.append(sig)
        return out[:4]
    if fam == 'c12-trunc':
        out = []
        if tr['decoded_cuts']:
            out.append({'property': 'C12', 'clause': 'C12.a', 'cut_class': _cut_class(plan, tr['decoded_cuts'][0])})
        if tr['whole'] is not True:
            out.append({'property': 'C12', 'clause': 'C12.a-whole-after', 'exc_type': tr['whole']['type']})
        return out
    if fam == 'c12-tail':
        it = plan['items'][0]
        if tr['exc'] is not None:
            return [{'property': 'C12', 'clause': 'C12.b-raise', 'exc_type': tr['exc']['type'],
                     'raise_site': tr['exc']['site']}]
        d = tr['d']
        if d['b'] != it['adm']['b'] or d['n'] != it['adm']['n']:
            return [{'property': 'C12', 'clause': 'C12.b-bytes'}]
        if plan['knobs'].get('compiled') is None and any(d[k] != it['adm'][k] for k in ('v', 'l', 'k')):
            return [{'property': 'C12', 'clause': 'C12.b-values'}]
        return []
    if fam == 'c11-admit':
        raw = bytes.fromhex(plan['items'][0]['hex'])
        out = []
        for mode in ('full', 'info'):
            r = tr[mode]
            if isinstance(r, dict):
                out.append({'property': 'C11', 'clause': 'C11.a-valid-message-not-delivered', 'mode': mode,
                            'exc_type': r['exc']['type'], 'raise_site': r['exc']['site']})
            elif r != [[_h(raw), len(raw)]]:
                out.append({'property': 'C11', 'clause': 'C11.a-valid-message-not-delivered', 'mode': mode})
        return out[:1]
    if fam == 'c17-admit':
        if tr['full_ok'] and not tr['info_ok']:
            e = tr.get('info_error') or {}
            return [{'property': 'C17', 'clause': 'C17.c-metadata-only-fails-where-full-decode-succeeds',
                     'exc_type': e.get('type'), 'raise_site': e.get('site')}]
        return []
    if fam == 'c17':
        return oracle_c17(plan, tr)
    if fam == 'c17-multi':
        out = []
        for k, (it, r) in enumerate(zip(plan['items'], tr['per'])):
            if r['exc'] is not None:
                out.append({'property': 'C17', 'clause': 'C17.d-raise' if it['how'] == 'info' else 'C17.multi-full-raise',
                            'exc_type': r['exc']['type'], 'raise_site': r['exc']['site'], 'position': min(k, 1)})
                break
            if it['how'] == 'info' and any(n == 'template_data' for _i, ps in r['sections'] for n, _v in ps):
                out.append({'property': 'C17', 'clause': 'C17.d-reads-data', 'position': min(k, 1)})
                break
            for ex, st, val in r['q']:
                exp = md_expected(ex, r['sections'])
                if exp[0] == 'skip':
                    continue
                if exp[0] == 'any':
                    if st == 'err' and val['type'] != 'MetadataExprParsingError':
                        out.append({'property': 'C17', 'clause': 'C17.b-foreign-exception', 'expr_class': 'odd',
                                    'got': val['type'], 'position': min(k, 1)})
                    continue
                if exp[0] == 'err':
                    if st != 'err' or val['type'] != 'MetadataExprParsingError':
                        out.append({'property': 'C17', 'clause': 'C17.b-reject', 'expr_class': expr_class(ex),
                                    'got': st if st == 'ok' else val['type'], 'position': min(k, 1)})
                elif st != 'ok' or val != exp[1]:
                    out.append({'property': 'C17', 'clause': 'C17.a-lookup', 'expr_class': expr_class(ex),
                                'how': it['how'], 'position': min(k, 1)})
            if out:
                break
        if not out and any(r.get('late_same') is False for r in tr['per']):
            out.append({'property': 'C17', 'clause': 'C17.a-lookup-after-later-messages'})
        return out[:2]
    raise ValueError(fam)


def _sig_eq(a, b):
    ks = ('clause', 'exc_type', 'raise_site')
    return all(a.get(k) == b.get(k) for k in ks)


def _cut_class(plan, cut):
    raw = bytes.fromhex(plan['items'][0]['hex'])
    w = bufrgen.walk(raw)
    for k in sorted(w['sections']):
        o, l = w['sections'][k]
        if o <= cut < o + l:
            return 'in-section-%d' % k
    if cut < 8:
        return 'in-section-0'
    return 'in-section-5'


def oracle_c17(plan, tr):
    it = plan['items'][0]
    out = []
    fk = (it.get('fault') or {}).get('region')
    if tr['exc'] is not None:
        return [{'property': 'C17', 'clause': 'C17.d-raise', 'exc_type': tr['exc']['type'],
                 'raise_site': tr['exc']['site'], 'damage': fk}]
    if tr['info'] != it['adm_info']:
        out.append({'property': 'C17', 'clause': 'C17.d-values', 'damage': fk})
    if tr.get('has_data'):
        out.append({'property': 'C17', 'clause': 'C17.d-reads-data'})
    # metadata queries: expected from the sections list, resolved here by the property's own rule
    secs = tr.get('sections') or []
    for ex, st, val in tr['q']:
        exp = md_expected(ex, secs)
        if exp[0] == 'skip':
            continue
        if exp[0] == 'any':
            if st == 'err' and val['type'] != 'MetadataExprParsingError':
                out.append({'property': 'C17', 'clause': 'C17.b-foreign-exception', 'expr_class': 'odd',
                            'got': val['type']})
            continue
        if exp[0] == 'err':
            if st != 'err' or val['type'] != 'MetadataExprParsingError':
                out.append({'property': 'C17', 'clause': 'C17.b-reject', 'expr_class': expr_class(ex),
                            'got': st if st == 'ok' else val['type']})
        else:
            if st != 'ok' or val != exp[1]:
                out.append({'property': 'C17', 'clause': 'C17.a-lookup', 'expr_class': expr_class(ex)})
    # metadata-only decoding returns the same values for sections 0-3 as a full decode (of the undamaged
    # message: the damage is confined to sections 4 and 5)
    if secs and tr.get('fsections'):
        a = [x for x in secs if x[0] <= 3]
        b = [x for x in tr['fsections'] if x[0] <= 3]
        if a != b:
            names = [n for (i, pa), (_j, pb) in zip(a, b) for (n, v), (_n2, v2) in zip(pa, pb) if v != v2]
            out.append({'property': 'C17', 'clause': 'C17.c-metadata-only-differs-from-full-decode',
                        'name': names[0] if names else 'layout'})
    for ex, st, val in tr.get('fq', []):
        exp = md_expected(ex, tr['fsections'])
        if exp[0] == 'skip':
            continue
        if exp[0] == 'any':
            if st == 'err' and val['type'] != 'MetadataExprParsingError':
                out.append({'property': 'C17', 'clause': 'C17.b-foreign-exception', 'expr_class': 'odd',
                            'got': val['type'], 'how': 'full'})
            continue
        if exp[0] == 'err':
            if st != 'err' or val['type'] != 'MetadataExprParsingError':
                out.append({'property': 'C17', 'clause': 'C17.b-reject', 'expr_class': expr_class(ex),
                            'got': st if st == 'ok' else val['type'], 'how': 'full'})
        elif st != 'ok' or val != exp[1]:
            out.append({'property': 'C17', 'clause': 'C17.a-lookup', 'expr_class': expr_class(ex), 'how': 'full'})
    # the command line fronts
    if not out:
        for ex, front, val, err, exc in tr.get('cli', []):
            exp = md_expected(ex, secs)
            if exp[0] in ('skip', 'any'):
                continue
            # which message object a command builds (metadata-only or fully decoded) is its own business:
            # only lookups whose answer is the same for both are compared (sections 0-3)
            nm = ex.strip()[1:].split('.')[-1]
            if nm in ('template_data', 'stop_signature') or (expr_class(ex) == 'indexed' and
                                                             int(ex.strip()[1:].split('.')[0]) >= 4):
                continue
            if exc is not None:
                out.append({'property': 'C17', 'clause': 'C17.b-cli-traceback', 'front': front,
                            'expr_class': expr_class(ex), 'exc_type': exc['type']})
            elif exp[0] == 'err':
                if not err or val is not None:
                    out.append({'property': 'C17', 'clause': 'C17.b-reject', 'expr_class': expr_class(ex), 'how': front})
            elif err or (val != exp[1] and not (front == 'query' and _unquoted(exp[1]) == val)):
                out.append({'property': 'C17', 'clause': 'C17.a-lookup', 'expr_class': expr_class(ex), 'how': front})
    # ground truth by construction for synthetic messages
    if it.get('truth') and not out:
        by = {}
        for idx, params in secs:
            for n, v in params:
                by.setdefault(n, (idx, v))
        for n, v in it['truth'].items():
            if n in by and n != 'unexpanded_descriptors':
                if by[n][1] != repr(v):
                    out.append({'property': 'C17', 'clause': 'C17.a-truth', 'name': n})
                    break
        tl = it.get('truth_len') or {}
        for idx, params in secs:
            for n, v in params:
                if idx == 4 and fk == 'hdr4':
                    continue            # the damage is exactly that field
                if n == 'section_length' and tl.get(str(idx)) is not None and v != repr(tl[str(idx)]):
                    out.append({'property': 'C17', 'clause': 'C17.a-truth', 'name': '%d.section_length' % idx})
    return out[:3]


def _unquoted(r):
    """`print(value)` of a text value shows it without the quotes of its repr"""
    if isinstance(r, str) and len(r) >= 2 and r[0] == r[-1] and r[0] in '\'"':
        return r[1:-1]
    return r


def expr_class(ex):
    s = ex.strip()
    if not s:
        return 'blank'
    if s[0] != '%':
        return 'no-percent'
    if '.' in s:
        def plain(x):
            return x.isascii() and x.isdigit()

        def junk(x):        # pure ASCII that int() refuses: non-numeric under every reading
            if not x.isascii():
                return False
            try:
                int(x)
                return False
            except ValueError:
                return True
        body = s[1:]
        first, upto_last = body.split('.')[0], body.rsplit('.', 1)[0]
        if body.count('.') == 1:
            if plain(first):
                return 'indexed'
            return 'bad-index' if junk(first) else 'odd'
        return 'bad-index' if (junk(first) and junk(upto_last)) else 'odd'
    return 'bare'


def md_expected(ex, secs):
    """the property's rule, evaluated over what the sections hold"""
    s = ex.strip()
    c = expr_class(ex)
    if c in ('blank', 'no-percent', 'bad-index'):
        return ('err', None)
    if c == 'odd':
        return ('any', None)
    if c == 'indexed':
        a, name = s[1:].split('.', 1)
        if '.' in name:
            return ('skip', None)
        k = int(a)
        for idx, params in secs:
            if idx == k:
                for n, v in params:
                    if n == name:
                        return ('ok', v)
        return ('ok', 'None')
    name = s[1:]
    for idx, params in sorted(secs, key=lambda x: x[0]):
        for n, v in params:
            if n == name:
                return ('ok', v)
    return ('ok', 'None')


# ----------------------------------------------------------------------------
# abstract shapes, shrinking
def shape(plan, tr=None):
    fam = plan['family']
    kn = plan.get('knobs', {})
    if fam in ('c11', 'c12', 'c17-stream'):
        seps = [bytes.fromhex(x) for x in plan['seps']]

        def sc(b):
            if not b:
                return '-'
            if b.endswith(b'BUF'):
                return 'F'
            if b'7777' in b:
                return '7'
            if b[:1] in (b'B', b'U', b'F'):
                return 'p'
            return 'n'
        per = tuple((it['cls'], _fk(it['fault']) if it.get('fault') else '', sc(s))
                    for it, s in zip(plan['items'], seps))
        if plan.get('sub') == 'big':
            size = sum(len(it['hex']) // 2 for it in plan['items']) + sum(len(x) for x in seps)
            per = (tuple(sorted(set(per))), size // 65536)
        return (fam + '-' + plan['sub'] if plan.get('sub') else fam, per, kn.get('mode'), kn.get('coe'),
                kn.get('front'), kn.get('compiled'),
                (kn.get('filter') or {}).get('idx'), (kn.get('warm') or {}).get('how'))
    if fam == 'c12-enum':
        return (fam, plan['items'][0]['ref'], plan['items'][1]['cls'], kn.get('mode'), kn.get('coe'), kn.get('order'),
                kn.get('front'))
    if fam == 'c12-trunc':
        return (fam, plan['items'][0]['ref'], kn.get('compiled'))
    if fam == 'c12-tail':
        return (fam, plan['items'][0]['cls'], kn.get('tail_kind'), kn.get('compiled'))
    if fam == 'c17-multi':
        return (fam, tuple((it['cls'], it['how'], bool(it.get('fault')),
                            tuple(sorted(set(expr_class(e) for e in it['exprs'])))) for it in plan['items']))
    if fam == 'c17':
        it = plan['items'][0]
        f = it.get('fault') or {}
        return (fam, it['cls'], f.get('region'), tuple(sorted(set(expr_class(e) for e in plan.get('exprs', [])))))
    return (fam,)


def nontrivial(plan, tr):
    fam = plan['family']
    if fam == 'c11':
        emb = any('B' in it['cls'] for it in plan['items'])
        return len(plan['items']) >= 2 or any(plan['seps'][:len(plan['items']) + 1]) and plan['items'] or emb
    if fam == 'c12':
        return any(it['fault'] for it in plan['items']) and any(not it['fault'] for it in plan['items'])
    if fam == 'c17-stream':
        return any(it['fault'] for it in plan['items'])
    if fam == 'c17':
        return bool(plan['items'][0].get('fault'))
    if fam == 'c17-multi':
        return len(plan['items']) >= 2
    return True


def shrink_candidates(plan):
    fam = plan['family']
    if fam in ('c11', 'c12', 'c17-stream'):
        n = len(plan['items'])
        # drop halves, then single items
        if n > 2:
            for a, b in ((0, n // 2), (n // 2, n)):
                yield _drop(plan, range(a, b))
        for i in range(n):
            if n > 1:
                yield _drop(plan, [i])
        for i in range(n):
            if plan['items'][i].get('fault') and sum(1 for it in plan['items'] if it.get('fault')) > 1:
                p = _copy(plan)
                p['items'][i]['fault'] = None
                yield p
        for i, s in enumerate(plan['seps']):
            if s:
                p = _copy(plan)
                p['seps'][i] = ''
                yield p
        kn = plan['knobs']
        for k, v in (('front', 'api'), ('compiled', None), ('filter', None), ('warm', None)):
            if kn.get(k) != v:
                p = _copy(plan)
                p['knobs'][k] = v
                if k == 'front' and kn['front'] in ('cli-info-m', 'cli-info-c', 'cli-split'):
                    p['knobs']['mode'] = 'info'
                yield p
    elif fam == 'c12-enum':
        fs = plan['faults']
        if len(fs) > 1:
            for part in (fs[:len(fs) // 2], fs[len(fs) // 2:]):
                p = _copy(plan)
                p['faults'] = part
                yield p
        if plan['knobs'].get('order') != 'AB':
            p = _copy(plan)
            p['knobs']['order'] = 'AB'
            yield p
        for i, x in enumerate(plan['seps']):
            if x:
                p = _copy(plan)
                p['seps'][i] = ''
                yield p
    elif fam == 'c12-trunc':
        cuts = plan['cuts']
        if len(cuts) > 1:
            for part in (cuts[:len(cuts) // 2], cuts[len(cuts) // 2:]):
                p = _copy(plan)
                p['cuts'] = part
                yield p
    elif fam == 'c12-tail':
        t = plan['tail']
        if len(t) > 2:
            p = _copy(plan)
            p['tail'] = t[:(len(t) // 4) * 2]
            yield p
    elif fam == 'c17-multi':
        n = len(plan['items'])
        for i in range(n):
            if n > 1:
                p = _copy(plan)
                del p['items'][i]
                yield p
        for i, it in enumerate(plan['items']):
            if len(it['exprs']) > 1:
                for part in (it['exprs'][:len(it['exprs']) // 2], it['exprs'][len(it['exprs']) // 2:]):
                    p = _copy(plan)
                    p['items'][i]['exprs'] = part
                    yield p
            if it.get('fault'):
                p = _copy(plan)
                p['items'][i]['fault'] = None
                yield p
    elif fam == 'c17':
        ex = plan.get('exprs', [])
        if len(ex) > 1:
            for part in (ex[:len(ex) // 2], ex[len(ex) // 2:]):
                p = _copy(plan)
                p['exprs'] = part
                yield p
        f = plan['items'][0].get('fault')
        if f and len(f['ops']) > 1:
            for i in range(len(f['ops'])):
                p = _copy(plan)
                p['items'][0]['fault']['ops'] = [o for j, o in enumerate(f['ops']) if j != i]
                yield p


def _copy(plan):
    import json
    return json.loads(json.dumps(plan))


def _drop(plan, idxs):
    idxs = set(idxs)
    p = _copy(plan)
    p['items'] = [it for i, it in enumerate(plan['items']) if i not in idxs]
    seps = plan['seps']
    p['seps'] = [s for i, s in enumerate(seps[:-1]) if i not in idxs] + [seps[-1]]
    return p


def valid(plan):
    if plan['family'] in ('c11', 'c12', 'c17-stream'):
        lay = finalize(plan)
        if not lay['ok']:
            return False
        if plan['family'] == 'c12' and not any(it.get('fault') for it in plan['items']):
            return False
    return True
