"""
defsim -- definitions-then-data stream sessions (C20, and the C08.d scenario).

A session is a byte stream written by bufrgen and scanned by the real
generate_bufr_message in one forked process:
  std(v)   data message over standard descriptors of master version v (gets a table group cached
           *before* a definition arrives)
  def      NCEP-layout table-definition message (data category 11) carrying new Table B / D entries
  new      data message whose template uses defined elements / sequences and standard ones
  bad      a data message with its stop signature overwritten (only with continue-on-error)
The reference model is a registry {id -> (name, unit, scale, ref, nbits)}, {id -> member ids}
updated at each definition message; every data message is written by bufrgen against the registry
snapshot of that moment, so its ground truth is known by construction.

plan = {'engine':'defsim','family':F,'seed':n,'knobs':{'coe','compiled','filecheck'},
        'items':[{'kind','hex','truth','defined':[ids],'version', ...}], 'seps':[hex]}
families: c20 (disjoint ids accumulate), c20-redef (a later definition re-defines ids),
          c20-ncep (replication-only sequences, the form _fix_ncep_descriptors repairs),
          c08-def (any of the above scanned with a compiling decoder and compared with the
                   interpreting decoder on the same stream in a sibling process)
"""
import hashlib
import json
import os
import random
import shutil
import tempfile

from sim import bufrgen, core, streamsim

DEF_TEMPLATE = [['d', 31001, [['e', 1], ['e', 2], ['e', 3]]],
                ['d', 31001, [['s', 300004]]],
                ['d', 31001, [['s', 300003], ['o', 205064], ['d', 31001, [['e', 30]]]]]]

LOCAL_CLASH_IDS = [49193, 49194, 55003, 62190, 62191, 63190]
NUM_UNITS = ['NUMERIC', 'M', 'K', 'PA', 'DEGREE TRUE', 'M S-1', 'KG M-2', '%', 'S']
MIN_VERSION = 13
NEEDS_POOL = False


def _h(x):
    if not isinstance(x, bytes):
        x = x.encode('utf-8', 'backslashreplace')
    return hashlib.sha1(x).hexdigest()[:16]


# ----------------------------------------------------------------------------
# standard elements usable in every version a session may pick
_COMMON = {}


def common_elements():
    """numeric / code / string elements present in every bundled version >= MIN_VERSION"""
    if 'els' not in _COMMON:
        vs = [v for v in bufrgen.table_versions() if v >= MIN_VERSION]
        ids = None
        for v in vs:
            b, _ = bufrgen.load_tables(v)
            ok = set(i for i, info in b.items() if 1 <= i // 1000 <= 30 and 1 <= info[4] <= 64 and
                     (info[1] != bufrgen.STRING_UNIT or info[4] % 8 == 0))
            ids = ok if ids is None else ids & ok
        _COMMON['els'] = sorted(ids)
        _COMMON['versions'] = vs
    return _COMMON['els']


def versions():
    common_elements()
    return _COMMON['versions']


# ----------------------------------------------------------------------------
# the definition message
def _txt(s, nbits, just='l'):
    n = nbits // 8
    b = s.encode('ascii')
    b = b.ljust(n) if just == 'l' else b.rjust(n)
    assert len(b) == n, (s, nbits)
    return b.hex()


def _num(rng, v, nbits):
    """a non-negative integer as characters: left-justified, right-justified or zero-padded"""
    n = nbits // 8
    s = str(v)
    style = rng.choice('llrz')
    if style == 'z':
        s = s.rjust(n, '0')
    return _txt(s, nbits, 'r' if style == 'r' else 'l')


def write_definition(rng, version, edition, b_entries, d_entries, a_entries, centre=7, fixed=()):
    """b_entries: [(id, name, unit, scale, ref, nbits)], d_entries: [(id, name, [member ids])]
    fixed: the parts ('a', 'b', 'd') whose entries stand under FIXED replication (1XX00n) instead of the
    delayed replication of the NCEP sample layout - the library's definition processor reads both.
    -> (bytes, truth)"""
    tb, _td = bufrgen.load_tables(version)
    w = dict((i, tb[i][4]) for i in (1, 2, 3, 10, 11, 12, 13, 14, 15, 16, 17, 18, 19, 20, 30))
    fixed = set(x for x, n in (('a', len(a_entries)), ('b', len(b_entries)), ('d', len(d_entries)))
                if x in fixed and 1 <= n <= 255)
    template = [['f', len(a_entries), DEF_TEMPLATE[0][2]] if 'a' in fixed else DEF_TEMPLATE[0],
                ['f', len(b_entries), DEF_TEMPLATE[1][2]] if 'b' in fixed else DEF_TEMPLATE[1],
                ['f', len(d_entries), DEF_TEMPLATE[2][2]] if 'd' in fixed else DEF_TEMPLATE[2]]
    raws = [] if 'a' in fixed else [len(a_entries)]
    for (code, l1, l2) in a_entries:
        raws += [_txt(code, w[1]), _txt(l1, w[2]), _txt(l2, w[3])]
    if 'b' not in fixed:
        raws.append(len(b_entries))
    for (eid, name, unit, scale, ref, nbits) in b_entries:
        n1 = name[:w[13] // 8]
        n2 = name[w[13] // 8:]
        raws += [_txt('%d' % (eid // 100000), w[10]), _txt('%02d' % ((eid // 1000) % 100), w[11]),
                 _txt('%03d' % (eid % 1000), w[12]), _txt(n1, w[13]), _txt(n2, w[14]),
                 _txt(unit, w[15], rng.choice('lll')),
                 _txt('+' if scale >= 0 else '-', w[16]), _num(rng, abs(scale), w[17]),
                 _txt('+' if ref >= 0 else '-', w[18]), _num(rng, abs(ref), w[19]),
                 _num(rng, nbits, w[20])]
    if 'd' not in fixed:
        raws.append(len(d_entries))
    for (sid, name, members) in d_entries:
        raws += [_txt('3', w[10]), _txt('%02d' % ((sid // 1000) % 100), w[11]), _txt('%03d' % (sid % 1000), w[12]),
                 _txt(name, 64 * 8), len(members)]
        raws += [_txt('%06d' % m, w[30]) for m in members]
    spec = {'edition': edition, 'version': version, 'local_version': 0, 'centre': centre, 'subcentre': 0,
            'category': 11, 'subcategory': 0, 'local_subcategory': 0, 'update': 0,
            'date': [2020, 5, 6, 7, 8, 9], 'sec2': None, 'pads': {}, 'compressed': False,
            'template': template, 'subsets': [raws], 'observed': True}
    msg, truth = bufrgen.write_message(spec)
    truth['fixed_parts'] = sorted(fixed)
    return msg, truth


# ----------------------------------------------------------------------------
# registry-driven generation
def gen_b_entry(rng, eid):
    r = rng.random()
    nm = 'VERIF ELEMENT %06d' % eid + ' ' * rng.randint(0, 3)
    if rng.random() < 0.3:
        nm = nm.ljust(32) + 'SECOND LINE'
    if r < 0.62:
        nbits = rng.choice([1, 2, 3, 7, 8, 9, 12, 15, 16, 17, 24, 31, 32, rng.randint(1, 32)])
        scale = rng.choice([0, 0, 1, 2, 3, 6, -1, -2, -3, rng.randint(-3, 6)])
        ref = rng.choice([0, 0, -1, 1, -100, -1024, 1000, -1000000, 1000000, rng.randint(-10 ** 6, 10 ** 6)])
        return (eid, nm, rng.choice(NUM_UNITS), scale, ref, nbits)
    if r < 0.82:
        return (eid, nm, rng.choice(['CODE TABLE', 'FLAG TABLE']), 0, 0, rng.randint(1, 16))
    return (eid, nm, bufrgen.STRING_UNIT, 0, 0, 8 * rng.randint(1, 16))


def _pick_el(rng, reg_b):
    if reg_b and rng.random() < 0.7:
        return rng.choice(sorted(reg_b))
    return rng.choice(common_elements())


FACTORS = [31001, 31001, 31000, 31002]


def gen_members(rng, reg_b, reg_d, ncep_forms, allow_seq=True):
    """member id list of a new (well-formed) sequence"""
    out = []
    for _ in range(rng.randint(1, 4)):
        r = rng.random()
        if r < 0.55:
            out.append(_pick_el(rng, reg_b))
        elif r < 0.68:
            inner = [_pick_el(rng, reg_b) for _ in range(rng.randint(1, 2))]
            out += [100000 + len(inner) * 1000 + rng.randint(1, 3)] + inner
        elif r < 0.80:
            inner = [_pick_el(rng, reg_b) for _ in range(rng.randint(1, 2))]
            out += [100000 + len(inner) * 1000, rng.choice(FACTORS)] + inner
        elif r < 0.92 and allow_seq and [s for s in reg_d if s not in ncep_forms]:
            out.append(rng.choice(sorted(s for s in reg_d if s not in ncep_forms)))
        elif ncep_forms and allow_seq:
            # a replication-only sequence followed by the single descriptor it replicates
            nxt = _pick_el(rng, reg_b)
            plain = [s for s in reg_d if s not in ncep_forms]
            if plain and rng.random() < 0.4:
                nxt = rng.choice(sorted(plain))
            out += [rng.choice(sorted(ncep_forms)), nxt]
        else:
            out.append(_pick_el(rng, reg_b))
    return out


def ncep_flatten(ids, reg_d, ncep_forms):
    out = []
    for i in ids:
        if i in ncep_forms:
            out.extend(reg_d[i])
        else:
            out.append(i)
    return out


def writer_tables(reg_b, reg_d, ncep_forms):
    """registry snapshot in the form the writer takes (replication-only sequences spliced in)"""
    eb = dict((str(k), list(v)) for k, v in reg_b.items())
    ed = dict((str(k), ncep_flatten(v, reg_d, ncep_forms)) for k, v in reg_d.items() if k not in ncep_forms)
    return eb, ed


def gen_data_message(rng, version, reg_b, reg_d, ncep_forms, use_defs=True, top=None):
    """a data message over the registry snapshot -> item dict"""
    if top is not None:
        top = list(top)
    elif use_defs:
        top = []
        for _ in range(rng.randint(1, 4)):
            r = rng.random()
            plain = sorted(s for s in reg_d if s not in ncep_forms)
            if r < 0.4 and plain:
                top.append(rng.choice(plain))
            elif r < 0.5 and ncep_forms:
                nxt = rng.choice(plain) if (plain and rng.random() < 0.5) else _pick_el(rng, reg_b)
                top += [rng.choice(sorted(ncep_forms)), nxt]
            else:
                top += gen_members(rng, reg_b, reg_d, ncep_forms, allow_seq=False)
    else:
        top = gen_members(rng, {}, {}, set(), allow_seq=False)
    flat = ncep_flatten(top, reg_d, ncep_forms)
    nodes = [bufrgen._strip(n) for n in bufrgen.parse_ids(flat)]
    eb, ed = writer_tables(reg_b, reg_d, ncep_forms)
    b, d = bufrgen.load_tables(version)
    b = dict(b)
    d = dict(d)
    for k, v in eb.items():
        b[int(k)] = tuple(v)
    for k, v in ed.items():
        d[int(k)] = list(v)
    tree = bufrgen._expand(nodes, b, d)
    from sim import pool
    comp = rng.random() < 0.3
    nsub = rng.choice([1, 1, 2, 3])
    rec = []
    first = pool.gen_raws(rng, tree, record=rec)
    subsets = [first]
    for _ in range(nsub - 1):
        if comp:
            s = pool.gen_raws(rng, tree, factors=rec)
            s = [a if rng.random() < 0.4 else c for a, c in zip(first, s)]
            subsets.append(pool._merge_keep_factors(tree, rec, first, s))
        else:
            subsets.append(pool.gen_raws(rng, tree))
    local = use_defs and version == 13 and any(int(k) in LOCAL_CLASH_IDS for k in eb) and rng.random() < 0.6
    spec = {'edition': rng.choice([3, 4, 4]), 'version': version, 'local_version': 1 if local else 0,
            'centre': 98 if local else rng.choice([0, 7]), 'subcentre': 0,
            'category': rng.choice([0, 2, 102, 243, 255]), 'subcategory': 0, 'local_subcategory': rng.randint(0, 9),
            'update': 0, 'date': [2021, rng.randint(1, 12), rng.randint(1, 28), rng.randint(0, 23), 0, 0],
            'sec2': None, 'pads': {}, 'compressed': comp, 'template': nodes, 'subsets': subsets,
            'observed': True, 'extra_b': eb, 'extra_d': ed, 'ids_override': top}
    msg, truth = bufrgen.write_message(spec)
    return {'hex': msg.hex(), 'truth': {'subsets': truth['subsets'], 'infos': truth['infos']},
            'version': version, 'top': top, 'extra_b': eb if use_defs else {}, 'extra_d': ed if use_defs else {},
            'local_tables': bool(local),
            'uses_ncep': any(i in ncep_forms for i in top) or
            any(i in ncep_forms for s in _reach(top, reg_d) for i in reg_d[s])}


def _reach(ids, reg_d):
    seen = set()
    todo = [i for i in ids if i in reg_d]
    while todo:
        s = todo.pop()
        if s in seen:
            continue
        seen.add(s)
        todo.extend(i for i in reg_d[s] if i in reg_d)
    return seen


def gen_plan(family, seed, pool=None, tier='quick'):
    rng = random.Random(seed)
    for _attempt in range(30):
        plan = _gen_plan(family, rng, tier)
        if plan is None:
            continue
        plan.update({'engine': 'defsim', 'family': family, 'seed': seed})
        lay = layout(plan)
        if not lay['ok']:
            continue
        return plan
    raise core.HarnessError('could not generate a valid %s plan for seed %d' % (family, seed))


def _gen_plan(family, rng, tier):
    sub = family
    if family == 'c08-def':
        sub = rng.choice(['c20', 'c20-redef', 'c20-redef', 'c20-ncep'])
    fixed_layout = family == 'c20-fixed'
    if fixed_layout:
        sub = rng.choice(['c20', 'c20-redef'])
    if family == 'c12-def':
        sub = rng.choice(['c20', 'c20-redef'])
    vs = rng.sample(versions(), rng.randint(1, 2))
    clash = rng.random() < 0.15         # sessions in which a bundled local table defines the same ids
    if clash:
        vs[0] = 13
    reg_b, reg_d, ncep_forms = {}, {}, set()
    items = []
    cached = set()
    coe = rng.random() < 0.4 or family == 'c12-def'
    if rng.random() < 0.5:
        v = rng.choice(vs)
        it = gen_data_message(rng, v, {}, {}, set(), use_defs=False)
        it['kind'] = 'std'
        items.append(it)
        cached.add(v)
    n_defs = rng.choice([1, 1, 2, 2, 3])
    used_ids = set()
    prev_tops = []
    p_reuse = rng.choice([0.0, 0.3, 0.6])
    for k in range(n_defs):
        nb = rng.choice([1, 1, 2, 3, 4, 6, 8])
        if rng.random() < 0.12:
            nb = 0          # a table split over messages: this one carries sequences only
        b_entries = []
        redefined = []
        for _ in range(nb):
            if sub == 'c20-redef' and k >= 1 and reg_b and rng.random() < 0.6:
                eid = rng.choice(sorted(reg_b))
                if eid in [e[0] for e in b_entries]:
                    continue
                old = reg_b[eid]
                for _try in range(10):
                    ne = gen_b_entry(rng, eid)
                    if tuple(ne[2:]) != tuple(old[1:]):
                        break
                b_entries.append(ne)
                redefined.append(eid)
                continue
            for _try in range(20):
                eid = rng.randint(48, 63) * 1000 + rng.randint(0, 255)
                if clash and rng.random() < 0.5:
                    eid = rng.choice(LOCAL_CLASH_IDS)       # also defined by a bundled local table (98_0/1)
                if eid not in reg_b and eid not in used_ids:
                    break
            used_ids.add(eid)
            b_entries.append(gen_b_entry(rng, eid))
        # registry after this definition's B part (sequences of the same message may use them)
        nreg_b = dict(reg_b)
        for e in b_entries:
            nreg_b[e[0]] = (e[1].rstrip(), e[2], e[3], e[4], e[5])
        d_entries = []
        nreg_d = dict(reg_d)
        nforms = set(ncep_forms)
        if sub == 'c20-ncep' and not nforms or (sub == 'c20-ncep' and rng.random() < 0.3):
            for _ in range(rng.randint(1, 2)):
                sid = 300000 + rng.randint(48, 63) * 1000 + rng.randint(0, 255)
                if sid in nreg_d:
                    continue
                form = rng.choice([[101000, rng.choice(FACTORS)], [101000, 31001], [101000 + rng.randint(1, 3)]])
                d_entries.append((sid, 'VERIF REPLICATION ONLY %06d' % sid, form))
                nreg_d[sid] = form
                nforms.add(sid)
        for _ in range(rng.choice([0, 1, 1, 2, 3, 4]) if nb else rng.choice([1, 2, 3])):
            if sub == 'c20-redef' and k >= 1 and rng.random() < 0.4 and [s for s in reg_d if s not in nforms]:
                sid = rng.choice(sorted(s for s in reg_d if s not in nforms))
                # a re-defined sequence must not (transitively) contain itself
                members = gen_members(rng, nreg_b, {}, set(), allow_seq=False)
                redefined.append(sid)
            else:
                sid = 300000 + rng.randint(48, 63) * 1000 + rng.randint(0, 255)
                if sid in nreg_d:
                    continue
                members = gen_members(rng, nreg_b, nreg_d, nforms)
            if sid in [d[0] for d in d_entries]:
                continue
            d_entries.append((sid, 'VERIF SEQUENCE %06d' % sid, members))
            nreg_d[sid] = members
        if len(d_entries) > 1 and rng.random() < 0.4:
            # forward references inside one definition message: a sequence may name a member sequence that
            # the same message defines further down
            rng.shuffle(d_entries)
        a_entries = [('%03d' % rng.randint(200, 255), 'VERIF TABLE A LINE 1', 'LINE 2')
                     for _ in range(rng.choice([0, 1, 1, 2]))]
        dv = rng.choice(vs + [13])
        fixed = ()
        if fixed_layout:
            fixed = rng.choice([('b',), ('d',), ('b', 'd'), ('a',), ('a', 'b', 'd'), ('a', 'b'), ('a', 'd')])
        msg, dtruth = write_definition(rng, dv, rng.choice([3, 3, 4]), b_entries, d_entries, a_entries, fixed=fixed)
        items.append({'kind': 'def', 'hex': msg.hex(), 'version': dv, 'fixed_parts': dtruth['fixed_parts'],
                      'b_full': [list(e) for e in b_entries], 'd_full': [[d[0], d[1], list(d[2])] for d in d_entries],
                      'forms_added': sorted(nforms - ncep_forms),
                      'b': [[e[0], e[2], e[3], e[4], e[5]] for e in b_entries],
                      'd': [[d[0], d[2]] for d in d_entries], 'redefined': redefined,
                      'cached_before': sorted(cached)})
        reg_b, reg_d, ncep_forms = nreg_b, nreg_d, nforms
        pre = set(cached)
        cached = set()      # a definition invalidates the cache
        for _ in range(rng.randint(1, 3)):
            v = rng.choice(vs)
            r = rng.random()
            if r < 0.15:
                it = gen_data_message(rng, v, {}, {}, set(), use_defs=False)
                it['kind'] = 'std'
            else:
                # the same descriptor list as an earlier data message (same or another version): after a
                # re-definition it means something else
                reuse = rng.choice(prev_tops) if (prev_tops and rng.random() < p_reuse) else None
                it = gen_data_message(rng, reuse[1] if (reuse and rng.random() < 0.7) else v,
                                      reg_b, reg_d, ncep_forms, top=reuse[0] if reuse else None)
                v = it['version']
                it['kind'] = 'new'
                it['reused_template'] = bool(reuse)
                prev_tops.append((it['top'], v))
                it['defined'] = sorted(reg_b)
                it['uses_redefined'] = bool(set(redefined) & (set(int(x) for x in it['truth']['infos']) | _reach(it['top'], reg_d) | set(it['top'])))
            it['after_cached'] = v in pre and v not in cached
            if coe and rng.random() < 0.2:
                raw = bytes.fromhex(it['hex'])
                if raw.find(b'BUFR', 1) < 0:
                    bad = bufrgen.apply_fault(raw, {'kind': 'stopsig', 'bytes': rng.choice(['37373738', '00000000'])})
                    items.append({'kind': 'bad', 'hex': bad.hex(), 'version': v})
            items.append(it)
            cached.add(v)
    # an EARLIER definition message arrives again, octet for octet (NCEP files repeat their dictionary
    # messages): its entries override again whatever a later message had re-defined
    defs = [it for it in items if it['kind'] == 'def']
    if sub == 'c20-redef' and len(defs) >= 2 and rng.random() < 0.4:
        a = rng.choice(defs[:-1])
        again = dict((k, v) for k, v in a.items())
        again['resent'] = True
        again['cached_before'] = sorted(cached)
        items.append(again)
        for e in a['b_full']:
            reg_b[e[0]] = (e[1].rstrip(), e[2], e[3], e[4], e[5])
        for d in a['d_full']:
            reg_d[d[0]] = list(d[2])
        ncep_forms = set(ncep_forms) | set(a['forms_added'])
        changed = set(e[0] for e in a['b_full']) | set(d[0] for d in a['d_full'])
        for _ in range(rng.randint(1, 2)):
            reuse = rng.choice(prev_tops) if (prev_tops and rng.random() < 0.7) else None
            it = gen_data_message(rng, reuse[1] if reuse else rng.choice(vs), reg_b, reg_d, ncep_forms,
                                  top=reuse[0] if reuse else None)
            it['kind'] = 'new'
            it['reused_template'] = bool(reuse)
            it['defined'] = sorted(reg_b)
            it['after_resent_definition'] = True
            it['uses_redefined'] = bool(changed & (set(int(x) for x in it['truth']['infos']) |
                                                   _reach(it['top'], reg_d) | set(it['top'])))
            it['after_cached'] = False
            items.append(it)
    if family == 'c12-def':
        items = _insert_damaged_definitions(rng, items, vs, used_ids)
        if items is None:
            return None
    cut = None
    if family in ('c20', 'c20-redef', 'c08-def') and rng.random() < (0.4 if family == 'c08-def' else 0.2) and \
            not any(it.get('resent') for it in items):
        # a SECOND STREAM scanned by the same decoder object in the same process: the mirror image of the
        # first - the same ids defined differently by as many definition messages, the same descriptor lists
        # over them. It is complete in itself (every id is defined in it before it is used), so its expected
        # decode is the same whether an implementation keeps or drops the definitions of an earlier scan
        second = _second_stream(rng, items)
        if second:
            cut = len(items)
            items = items + second
    seps = [streamsim.gen_separator(rng)[1].hex() if rng.random() < 0.5 else '' for _ in range(len(items) + 1)]
    knobs = {'coe': coe, 'compiled': rng.choice([1, 2, 8, 8]) if family == 'c08-def' else None,
             'filecheck': family != 'c08-def' and rng.random() < 0.25, 'sub': sub + ('-fixed' if fixed_layout else ''),
             # a filter expression that accepts every message changes nothing (the scanner then reads each
             # header first and decodes the message a second time)
             'filter': rng.choice([None] * 7 + ['True', '${%length} > 0', '${%n_subsets} >= 0 and ${%edition} > 1'])}
    if family in ('c20', 'c20-redef', 'c20-ncep') and rng.random() < 0.12:
        # a filter that rejects exactly the definition messages: they are not yielded, but they were read from
        # the stream and the messages that follow are still decoded according to them
        knobs['filter'] = rng.choice(['${%data_category} != 11', 'not (${%data_category} == 11)',
                                      '${%data_category} in (0, 2, 102, 243, 255)'])
        knobs['rejects_definitions'] = True
    if rng.random() < 0.25:
        knobs['wire'] = False       # the scan builds no hierarchical structure (what decode -m asks for)
    plan = {'knobs': knobs, 'items': items, 'seps': seps}
    if cut:
        plan['cut'] = cut
    return plan


def _second_stream(rng, items):
    reg_b, reg_d, forms = {}, {}, set()
    out = []
    for it in items:
        if it['kind'] == 'std':
            out.append(json.loads(json.dumps(it)))
        elif it['kind'] == 'def':
            b_entries = []
            for e in it['b_full']:
                ne = gen_b_entry(rng, e[0])
                for _try in range(10):
                    if tuple(ne[2:]) != tuple(e[2:]):
                        break
                    ne = gen_b_entry(rng, e[0])
                b_entries.append(ne)
            d_entries = [(d[0], d[1], list(d[2])) for d in it['d_full']]
            a_entries = [('%03d' % rng.randint(200, 255), 'VERIF TABLE A LINE 1', 'LINE 2')
                         for _ in range(rng.choice([0, 1, 1, 2]))]
            msg, dtruth = write_definition(rng, it['version'], rng.choice([3, 3, 4]), b_entries, d_entries, a_entries,
                                           fixed=tuple(it.get('fixed_parts', ())))
            for e in b_entries:
                reg_b[e[0]] = (e[1].rstrip(), e[2], e[3], e[4], e[5])
            for d in d_entries:
                reg_d[d[0]] = list(d[2])
            forms |= set(it.get('forms_added', []))
            out.append({'kind': 'def', 'hex': msg.hex(), 'version': it['version'], 'fixed_parts': dtruth['fixed_parts'],
                        'b_full': [list(e) for e in b_entries], 'd_full': [[d[0], d[1], list(d[2])] for d in d_entries],
                        'forms_added': it.get('forms_added', []),
                        'b': [[e[0], e[2], e[3], e[4], e[5]] for e in b_entries],
                        'd': [[d[0], d[2]] for d in d_entries], 'redefined': sorted(set(e[0] for e in b_entries)),
                        'cached_before': [], 'second_stream': True})
        elif it['kind'] == 'new':
            try:
                n2 = gen_data_message(rng, it['version'], reg_b, reg_d, forms, top=it['top'])
            except Exception:
                return None
            n2.update({'kind': 'new', 'reused_template': True, 'defined': sorted(reg_b), 'uses_redefined': True,
                       'after_cached': False, 'second_stream': True})
            out.append(n2)
    if not any(x['kind'] == 'new' for x in out):
        return None
    return out


def _insert_damaged_definitions(rng, items, vs, used_ids):
    """c12-def: DAMAGED definition messages (stop signature overwritten, section 4 length changed - damage
    that strikes after the data have been read) between the messages of a session. Isolation demands that
    such a message is skipped and leaves nothing behind: (1) one that re-defines the ids of an earlier,
    intact definition - the messages that follow must still be decoded by the intact one; (2) one that
    defines brand-new ids, followed by an 'orphan' data message over those ids - which must fail like it
    does without the damaged message (nobody defined its descriptors)."""
    defs = [i for i, it in enumerate(items) if it['kind'] == 'def' and it['b_full']]
    out = list(items)
    n_ins = 0
    for _ in range(rng.choice([1, 1, 2])):
        how = rng.choice(['redefine', 'redefine', 'orphan']) if defs else 'orphan'
        if how == 'redefine':
            di = rng.choice(defs)
            src = items[di]
            b_entries = []
            for e in src['b_full']:
                for _try in range(10):
                    ne = gen_b_entry(rng, e[0])
                    if tuple(ne[2:]) != tuple(e[2:]):
                        break
                b_entries.append(ne)
            d_entries = []
            own = dict((e[0], None) for e in b_entries)
            for d in src['d_full']:
                if rng.random() < 0.5 and d[0] not in src.get('forms_added', []):
                    d_entries.append((d[0], d[1], [rng.choice(sorted(own)) for _ in range(rng.randint(1, 3))]))
            pos_min = out.index(src) + 1
        else:
            b_entries = []
            for _ in range(rng.randint(1, 3)):
                for _try in range(20):
                    eid = rng.randint(48, 63) * 1000 + rng.randint(0, 255)
                    if eid not in used_ids:
                        break
                used_ids.add(eid)
                b_entries.append(gen_b_entry(rng, eid))
            d_entries = []
            pos_min = rng.randint(0, len(out))
        dv = rng.choice(vs + [13])
        msg, _t = write_definition(rng, dv, rng.choice([3, 3, 4]), b_entries, d_entries,
                                   [('%03d' % rng.randint(200, 255), 'VERIF TABLE A LINE 1', 'LINE 2')])
        w = bufrgen.walk(msg)
        l4 = w['sections'][4][1]
        fault = rng.choice([{'kind': 'stopsig', 'bytes': rng.choice(['37373738', '00000000', '37373700'])},
                            {'kind': 'len', 'section': 4, 'delta': -rng.choice([1, 2, 3, 4])},
                            {'kind': 'len', 'section': 4, 'delta': rng.choice([1, 2, 3, 4, 8])}])
        if fault['kind'] == 'len' and l4 + fault['delta'] < 4:
            fault = {'kind': 'stopsig', 'bytes': '37373738'}
        bad = bufrgen.apply_fault(msg, fault)
        j = rng.randint(pos_min, len(out))
        out.insert(j, {'kind': 'baddef', 'hex': bad.hex(), 'version': dv, 'fault': fault, 'how': how,
                       'b': [[e[0], e[2], e[3], e[4], e[5]] for e in b_entries]})
        n_ins += 1
        if how == 'orphan':
            reg = dict((e[0], (e[1].rstrip(), e[2], e[3], e[4], e[5])) for e in b_entries)
            it = gen_data_message(rng, rng.choice(vs), reg, {}, set())
            if not any(int(k) in reg for k in it['truth']['infos']):
                continue
            it['kind'] = 'orphan'
            out.insert(rng.randint(j + 1, len(out)), it)
    return out if n_ins else None


def without_damaged_definitions(plan):
    """the same session with the damaged definition messages (and their separators) removed"""
    keep = [i for i, it in enumerate(plan['items']) if it['kind'] != 'baddef']
    p = dict(plan)
    p['items'] = [plan['items'][i] for i in keep]
    p['seps'] = [plan['seps'][i] for i in keep] + [plan['seps'][len(plan['items'])]]
    return p


# ----------------------------------------------------------------------------
def layout(plan):
    items = plan['items']
    seps = [bytes.fromhex(x) for x in plan['seps']]
    parts = []
    pos = 0
    starts = []
    for i, it in enumerate(items):
        sep = seps[i] if i < len(seps) else b''
        parts.append(sep)
        pos += len(sep)
        raw = bytes.fromhex(it['hex'])
        starts.append(pos)
        parts.append(raw)
        pos += len(raw)
    parts.append(seps[len(items)] if len(seps) > len(items) else b'')
    stream = b''.join(parts)
    ok = True
    i = stream.find(b'BUFR')
    while i >= 0:
        good = False
        for s, it in zip(starts, items):
            n = len(it['hex']) // 2
            if i == s or (it['kind'] not in ('bad', 'baddef') and s < i <= s + n - 4):
                good = True
        if not good:
            ok = False
            break
        i = stream.find(b'BUFR', i + 1)
    cut = plan.get('cut')
    streams = [stream]
    if cut and 0 < cut < len(items):
        at = starts[cut] - len(seps[cut] if cut < len(seps) else b'')
        streams = [stream[:at], stream[at:]]
    return {'stream': stream, 'streams': streams, 'starts': starts, 'ok': ok}


# ----------------------------------------------------------------------------
# executor
def _observe(m):
    td = m.template_data.value
    vals = json.loads(json.dumps(td.decoded_values_all_subsets, default=lambda b: {'hex': b.hex()}))
    ids = [[str(d) for d in ds] for ds in td.decoded_descriptors_all_subsets]
    attrs = [[[getattr(d, 'unit', None), getattr(d, 'scale', None), getattr(d, 'refval', None),
               getattr(d, 'nbits', None)] for d in ds] for ds in td.decoded_descriptors_all_subsets]
    return {'b': _h(bytes(m.serialized_bytes)), 'n': len(m.serialized_bytes), 'vals': vals, 'ids': ids,
            'attrs': attrs, 'cat': m.data_category.value}


def _scan(arg):
    from pybufrkit.decoder import Decoder, generate_bufr_message
    from sim.observe import exc_info, quiet_std, install_step_budget
    quiet_std()
    install_step_budget()
    streams = [bytes.fromhex(x) for x in (arg.get('streams') or [arg['stream']])]
    dec = Decoder(compiled_template_cache_max=arg.get('compiled'))
    out = {'deliveries': [], 'exc': None}
    try:
        for stream in streams:          # one decoder object, one process, one scan after the other
            for m in generate_bufr_message(dec, stream, continue_on_error=arg['coe'], filter_expr=arg.get('filter'),
                                           **({} if arg.get('wire', True) else {'wire_template_data': False})):
                out['deliveries'].append(_observe(m))
    except Exception as e:
        out['exc'] = exc_info(e)
    return out


def _file_decode(arg):
    """decode one message alone against a tables root whose JSON files contain the registry"""
    from pybufrkit.decoder import Decoder
    from sim.observe import exc_info, quiet_std
    quiet_std()
    try:
        m = Decoder(tables_root_dir=arg['root']).process(bytes.fromhex(arg['hex']))
        return _observe(m)
    except Exception as e:
        return {'exc': exc_info(e)}


def make_tables_root(base, version, extra_b, extra_d):
    from pybufrkit.constants import DEFAULT_TABLES_DIR
    src = os.path.join(DEFAULT_TABLES_DIR, '0', '0_0', str(version))
    dst = os.path.join(base, '0', '0_0', str(version))
    os.makedirs(dst)
    for fn in os.listdir(src):
        if fn not in ('TableB.json', 'TableD.json'):
            os.symlink(os.path.join(src, fn), os.path.join(dst, fn))
    with open(os.path.join(src, 'TableB.json')) as f:
        tb = json.load(f)
    for k, v in extra_b.items():
        tb['%06d' % int(k)] = [v[0], v[1], v[2], v[3], v[4], '', 0, 0]
    with open(os.path.join(dst, 'TableB.json'), 'w') as f:
        json.dump(tb, f)
    with open(os.path.join(src, 'TableD.json')) as f:
        td = json.load(f)
    for k, v in extra_d.items():
        td['%06d' % int(k)] = ['VERIF', ['%06d' % int(x) for x in v]]
    with open(os.path.join(dst, 'TableD.json'), 'w') as f:
        json.dump(td, f)
    return base


def execute(plan):
    lay = layout(plan)
    kn = plan['knobs']
    tr = {'file': {}, 'ref': None}
    tmp = None
    try:
        if kn.get('filecheck'):
            # before anything is decoded in this process: the same data messages against table FILES
            # holding the registry, each in its own pristine process, no definition message processed
            tmp = tempfile.mkdtemp(prefix='verif-def-')
            for i, it in enumerate(plan['items']):
                if it['kind'] != 'new' or it.get('uses_ncep') or it.get('local_tables'):
                    continue
                root = make_tables_root(os.path.join(tmp, 'r%d' % i), it['version'], it['extra_b'], it['extra_d'])
                tr['file'][str(i)] = core.run_in_child(_file_decode, {'root': root, 'hex': it['hex']}, 300)
        arg = {'stream': lay['stream'].hex(), 'coe': kn['coe'], 'compiled': kn.get('compiled'),
               'filter': kn.get('filter'), 'wire': kn.get('wire', True)}
        if len(lay['streams']) > 1:
            arg['streams'] = [x.hex() for x in lay['streams']]
        if plan['family'] == 'c08-def':
            tr['ref'] = core.run_in_child(_scan, dict(arg, compiled=None), 300)
        if plan['family'] == 'c12-def':
            tr['ref'] = core.run_in_child(_scan, dict(arg, stream=layout(without_damaged_definitions(plan))['stream'].hex(),
                                                      streams=None), 300)
        tr.update(_scan(arg))
    finally:
        if tmp:
            shutil.rmtree(tmp, ignore_errors=True)
    return tr


core.register('defsim', execute)


# ----------------------------------------------------------------------------
# oracle
def _close(a, b):
    if a is None or b is None:
        return a is None and b is None
    return abs(a - b) <= 1e-9 * max(1.0, abs(a), abs(b))


def compare_item(it, got):
    """ground truth by construction vs one delivered message -> list of (clause, what)"""
    out = []
    truth = it['truth']
    defined = set(it.get('defined', []))
    if len(got['vals']) != len(truth['subsets']):
        return [('C20.a', 'subset-count')]
    for si, (gv, gi, ga, exp) in enumerate(zip(got['vals'], got['ids'], got['attrs'], truth['subsets'])):
        if gi != ['%06d' % e[0] for e in exp]:
            return [('C20.b-membership' if it['kind'] == 'new' else 'C20.c-membership', 'descriptor-sequence')]
        for g, a, (eid, raw, kind) in zip(gv, ga, exp):
            info = truth['infos'][str(eid)]
            isdef = eid in defined
            if a != [info[1], info[2], info[3], info[4]]:
                which = [n for n, x, y in zip(('unit', 'scale', 'refval', 'nbits'), a, info[1:]) if x != y]
                out.append(('C20.b-attrs' if isdef else 'C20.c-attrs', '+'.join(which)))
                return out
            if kind == 's':
                gb = bytes.fromhex(g['hex']) if isinstance(g, dict) else g
                if gb != bytes.fromhex(raw):
                    out.append(('C20.a' if isdef else 'C20.c-values', 'string'))
                    return out
            else:
                ev = bufrgen.expected_value(info, raw)
                if isinstance(g, dict) or not _close(g, ev):
                    out.append(('C20.a' if isdef else 'C20.c-values', 'numeric'))
                    return out
    return out


def oracle(plan, tr):
    fam = plan['family']
    items = plan['items']
    kn = plan['knobs']
    out = []
    if fam == 'c08-def':
        ref = tr['ref']
        if ref.get('budget_exceeded'):
            return out
        a = [(d['b'], d['n'], _h(json.dumps([d['vals'], d['ids'], d['attrs']]))) for d in tr['deliveries']]
        b = [(d['b'], d['n'], _h(json.dumps([d['vals'], d['ids'], d['attrs']]))) for d in ref['deliveries']]
        ea = (tr['exc'] or {}).get('type')
        eb = (ref['exc'] or {}).get('type')
        if a != b or ea != eb:
            what = 'error' if ea != eb else ('count' if len(a) != len(b) else
                                             ('bytes' if [x[:2] for x in a] != [x[:2] for x in b] else 'content'))
            out.append({'property': 'C08', 'clause': 'C08.d', 'what': what, 'got': ea, 'exp': eb,
                        'sub': kn.get('sub'), 'raise_site': (tr['exc'] or {}).get('site')})
        return out

    if fam == 'c12-def':
        ref = tr['ref']
        if ref.get('budget_exceeded') or ref['exc'] is not None:
            return out          # the session without the damaged definitions does not run through: inconclusive
        if tr['exc'] is not None:
            return [{'property': 'C12', 'clause': 'C12.c', 'fault_kind': 'definition-message', 'exc_type': tr['exc']['type'],
                     'raise_site': tr['exc']['site'], 'lib': tr['exc']['lib']}]
        a = [(d['b'], d['n'], _h(json.dumps([d['vals'], d['ids'], d['attrs']]))) for d in tr['deliveries']]
        b = [(d['b'], d['n'], _h(json.dumps([d['vals'], d['ids'], d['attrs']]))) for d in ref['deliveries']]
        if a != b:
            what = 'count' if len(a) != len(b) else ('bytes' if [x[:2] for x in a] != [x[:2] for x in b] else 'content')
            out.append({'property': 'C12', 'clause': 'C12.c-damaged-definition-isolated', 'what': what})
        return out
    base = {'property': 'C20', 'sub': kn.get('sub')}
    if tr['exc'] is not None:
        # an exception that escapes while the scanner is on a damaged message is C12's business
        # (isolation of damage), not C20's: the session is inconclusive from there on
        good_before = []
        for it in items:
            if it['kind'] == 'bad':
                break
            good_before.append((_h(bytes.fromhex(it['hex'])), len(it['hex']) // 2))
        deliv = [(d['b'], d['n']) for d in tr['deliveries']]
        if any(it['kind'] == 'bad' for it in items) and deliv == good_before:
            return out
        out.append(dict(base, clause='C20.raise', exc_type=tr['exc']['type'], raise_site=tr['exc']['site']))
        return out
    slots = []
    rejdef = bool(kn.get('rejects_definitions'))
    for it in items:
        dg = (_h(bytes.fromhex(it['hex'])), len(it['hex']) // 2)
        slots.append((dg, 'no' if (it['kind'] in ('bad', 'baddef', 'orphan') or (rejdef and it['kind'] == 'def')) else 'req'))
    deliv = [(d['b'], d['n']) for d in tr['deliveries']]
    if not streamsim._match(deliv, slots):
        # which kind of message went missing?
        want = [s[0] for s in slots if s[1] == 'req']
        lost = None
        for k, wnt in enumerate(want):
            if k >= len(deliv) or deliv[k] != wnt:
                lost = [it for it in items if it['kind'] != 'bad' and not (rejdef and it['kind'] == 'def')][k]['kind']
                break
        out.append(dict(base, clause='C20.delivery', lost=lost))
        return out
    good = [(i, it) for i, it in enumerate(items) if it['kind'] != 'bad' and not (rejdef and it['kind'] == 'def')]
    for (i, it), got in zip(good, tr['deliveries']):
        if it['kind'] == 'def':
            continue
        for clause, what in compare_item(it, got):
            out.append(dict(base, clause=clause, what=what, kind=it['kind']))
        f = tr['file'].get(str(i))
        if f is not None and not out:
            if 'exc' in f and f['exc']:
                out.append(dict(base, clause='C20.d-file-decode-failed', exc_type=f['exc']['type']))
            elif [f['vals'], f['ids'], f['attrs']] != [got['vals'], got['ids'], got['attrs']]:
                out.append(dict(base, clause='C20.d'))
        if out:
            break
    return out[:2]


# ----------------------------------------------------------------------------
def shape(plan, tr=None):
    kn = plan['knobs']
    per = tuple((it['kind'], len(it.get('b', [])), len(it.get('d', [])), ''.join(it.get('fixed_parts', [])),
                 bool(it.get('redefined')),
                 bool(it.get('uses_ncep')), bool(it.get('after_cached')), bool(it.get('uses_redefined')),
                 bool(it.get('reused_template')))
                for it in plan['items'])
    return (plan['family'], kn.get('sub'), per, kn.get('coe'), kn.get('compiled'), kn.get('filecheck'),
            bool(kn.get('filter')), plan.get('cut'), kn.get('wire', True), bool(kn.get('rejects_definitions')))


def nontrivial(plan, tr):
    seen_def = False
    for it in plan['items']:
        if it['kind'] == 'def':
            seen_def = True
        elif it['kind'] == 'new' and seen_def:
            return True
    return False


def valid(plan):
    if not (layout(plan)['ok'] and bool(plan['items'])):
        return False
    # a data message over in-stream ids needs the definition messages that define them in front of it: a
    # candidate of the shrinker that drops them is another experiment (it fails for a trivial reason)
    have_b, have_d = set(), set()
    for it in plan['items']:
        if it['kind'] == 'def':
            have_b |= set(e[0] for e in it.get('b', []))
            have_d |= set(d[0] for d in it.get('d', []))
        elif it['kind'] in ('new', 'orphan') and it.get('truth'):
            used_b = set(int(x) for x in it['truth'].get('infos', {}) if 48 <= (int(x) // 1000) % 100 <= 63 and int(x) < 100000)
            used_d = set(x for x in it.get('top', []) if x >= 300000 and 48 <= (x // 1000) % 100 <= 63)
            if it['kind'] == 'new' and not (used_b <= have_b and used_d <= have_d):
                return False
    return True


def _copy(plan):
    return json.loads(json.dumps(plan))


def _drop(plan, idxs):
    idxs = set(idxs)
    p = streamsim._drop(plan, idxs)
    if plan.get('cut'):
        cut = plan['cut'] - sum(1 for i in idxs if i < plan['cut'])
        if 0 < cut < len(p['items']):
            p['cut'] = cut
        else:
            p.pop('cut', None)
    return p


def shrink_candidates(plan):
    n = len(plan['items'])
    if plan.get('cut'):
        p = _copy(plan)         # one scan instead of two
        p.pop('cut')
        yield p
    if n > 2:
        for a, b in ((0, n // 2), (n // 2, n)):
            yield _drop(plan, range(a, b))
    for i in range(n):
        if n > 1:
            yield _drop(plan, [i])
    for i, s in enumerate(plan['seps']):
        if s:
            p = _copy(plan)
            p['seps'][i] = ''
            yield p
    kn = plan['knobs']
    if kn.get('filecheck'):
        p = _copy(plan)
        p['knobs']['filecheck'] = False
        yield p
    if kn.get('filter'):
        p = _copy(plan)
        p['knobs']['filter'] = None
        p['knobs'].pop('rejects_definitions', None)
        yield p
    if kn.get('wire') is False:
        p = _copy(plan)
        p['knobs'].pop('wire')
        yield p
    if kn.get('coe') and not any(it['kind'] == 'bad' for it in plan['items']):
        p = _copy(plan)
        p['knobs']['coe'] = False
        yield p
