"""
selftest -- import check, determinism self-test, sensitivity (mutant) self-test.
"""
import sys


def main(ns):
    from sim import core
    if ns.import_only:
        import bitstring  # noqa: F401
        import six  # noqa: F401
        import pybufrkit
        from sim import bufrgen, pool, streamsim, runner, checks  # noqa: F401
        print('imports ok: pybufrkit from %s, python %s' % (pybufrkit.__file__, sys.version.split()[0]))
        return core.EXIT_OK
    if ns.determinism:
        from sim import determinism
        return determinism.main(ns)
    if ns.mutants:
        from sim import mutants
        return mutants.main(ns)
    print('selftest: choose --import-only, --determinism or --mutants')
    return core.EXIT_HARNESS
