"""
checks -- per-property wiring: families, counts, coverage accounting, evidence text.
"""
import json

from sim import core, runner, streamsim


# ----------------------------------------------------------------------------
def _account_stream(stats, plan, tr):
    fam = plan['family']
    if fam in ('c11', 'c12', 'c17-stream'):
        stats.steps += len(plan['items'])
        for it in plan['items']:
            if it.get('fault'):
                k = streamsim._fk(it['fault'])
                stats.faults_fired[k] = stats.faults_fired.get(k, 0) + 1
        lay = streamsim.finalize(plan)
        if any(s['must_skip'] for s in lay['segs']):
            stats.probe('must_skip_demands', sum(1 for s in lay['segs'] if s['must_skip']))
        if any('B' in it['cls'] for it in plan['items']):
            stats.probe('embedded_signature_streams')
        if any(x for x in plan['seps']):
            stats.probe('streams_with_noise')
        if any(bytes.fromhex(x).endswith(b'BUF') for x in plan['seps'][:-1]):
            stats.probe('separator_ends_with_BUF')
        if tr.get('stderr_skips'):
            stats.probe('skip_notices', tr['stderr_skips'])
        stats.probe('front_' + plan['knobs']['front'])
        stats.probe('mode_' + plan['knobs']['mode'])
        if plan['knobs'].get('filter'):
            stats.probe('filtered_streams')
        if plan['knobs'].get('compiled') is not None:
            stats.probe('compiled_decoder_streams')
        if tr.get('exc'):
            stats.probe('runs_ending_in_exception')
    elif fam == 'c12-trunc':
        stats.steps += tr['n']
        stats.faults_fired['trunc'] = stats.faults_fired.get('trunc', 0) + tr['n']
        if plan.get('exhaustive'):
            stats.probe('messages_truncated_exhaustively')
        else:
            stats.probe('messages_truncated_sampled')
        for k, v in tr['types'].items():
            stats.probe('trunc_exc:' + k, v)
        stats.probe('trunc_prefixes_info_only_ok', tr['info_ok'])
    elif fam == 'c12-tail':
        stats.steps += 1
        stats.probe('tail_' + plan['knobs']['tail_kind'])
    elif fam == 'c17':
        stats.steps += 1 + len(plan.get('exprs', []))
        f = plan['items'][0].get('fault')
        if f:
            stats.faults_fired['data:' + f['region']] = stats.faults_fired.get('data:' + f['region'], 0) + 1
            if tr.get('full') != 'ok':
                stats.probe('data_damage_breaks_full_decode')
            else:
                stats.probe('data_damage_full_decode_still_ok')
        for ex, st, _v in tr.get('q', []):
            stats.probe('mdq_' + streamsim.expr_class(ex) + '_' + st)


ASSUME_STREAM = [
    'the independent writer/section walker in sim/bufrgen.py reads the standard correctly (admission compares '
    'every synthetic message with the library once; mismatches are reported as POOL-MISMATCH, not hidden)',
    'pool messages are those that decode alone in a pristine process; messages of data category 11 from the '
    'corpus are kept out of streams (they legitimately change how later messages decode - C20)',
    'a clean batch is evidence for the sampled streams, not a proof',
]


def c11(tier):
    return runner.check_main(
        'C11', tier, streamsim, 'streamsim',
        [('c11', 1400, 40000)],
        'exploration',
        'seeded streams of 0..8 pool messages x separators (empty, GTS headers, noise, partial signatures, stop '
        'signatures, ...BUF directly before a message) x full/info-only x continue flag x API/CLI front ends x '
        'metadata filters; a case is one stream; distinct = distinct abstract run shape (sequence of (message '
        'class, separator class) + mode + front end + compiled + filter class); non-trivial = >=2 messages or a '
        'non-empty separator or an embedded start signature',
        ASSUME_STREAM, _account_stream, design_ref='4.2')


def c12(tier):
    return runner.check_main(
        'C12', tier, streamsim, 'streamsim',
        [('c12', 1500, 40000), ('c12-trunc', 60, 1200), ('c12-tail', 200, 4000)],
        'fault_enumeration',
        'seeded streams of 2..8 messages, each message damaged with seeded probability by one of {stopsig, '
        'undef_el, undef_seq, len-, len+} (every subset of damaged messages occurs), full/info-only, with and '
        'without continue-on-error, API and CLI; plus per sampled message every truncation point (exhaustive '
        '<=1000 B quick / <=6000 B thorough, section edges + sampled cuts above) and arbitrary tails; distinct = '
        'abstract run shape (per message: class, fault kind+section+sign, separator class; mode; continue flag; '
        'front end); non-trivial = at least one fault fired and at least one undamaged message present',
        ASSUME_STREAM + [
            'a skip is demanded only where decoding provably cannot succeed (stop signature changed; declared '
            'lengths followed through the stream do not land on 7777; undefined descriptor at a top-level '
            'position not preceded by 206YYY, n_subsets>=1); elsewhere only isolation is demanded',
            'damaged messages contain no start signature after offset 0'],
        _account_stream, design_ref='4.3')


def c17(tier):
    return runner.check_main(
        'C17', tier, streamsim, 'streamsim',
        [('c17', 900, 20000), ('c17-stream', 500, 12000)],
        'exploration',
        'one pool message with seeded damage confined to the data section (after its 4-octet header) and section '
        '5 {bit, byte, 0xFF run, 0x00 run, random, stop signature}, decoded metadata-only and compared parameter '
        'by parameter with the undamaged metadata-only decode, plus 12 seeded %name / %k.name / malformed '
        'expressions per run; and streams of such messages scanned metadata-only (API, info -m, info -c, split); '
        'distinct = (message class, damaged region, expression classes) resp. stream shape; non-trivial = damage '
        'present',
        ASSUME_STREAM + ['the %name lookup clauses are sampled against the section contents and, for synthetic '
                         'messages, the writer\'s ground truth; this technique has no special power there'],
        _account_stream, design_ref='4.4')


CHECKS = {'C11': c11, 'C12': c12, 'C17': c17}
ENGINES = {'C11': streamsim, 'C12': streamsim, 'C17': streamsim}


def replay(prop, path):
    with open(path) as f:
        body = json.load(f)
    eng = ENGINES[prop]
    engine_name = body['plan'].get('engine')
    if engine_name == 'histsim':
        from sim import histsim
        eng = histsim
    elif engine_name == 'defsim':
        from sim import defsim
        eng = defsim
    return runner.replay(prop, path, eng)
