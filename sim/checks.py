"""
checks -- per-property wiring: families, counts, coverage accounting, evidence text.
"""
import json

from sim import core, defsim, histsim, runner, streamsim, subsim


# ----------------------------------------------------------------------------
def _account_stream(stats, plan, tr):
    if plan.get('engine') == 'defsim':
        for it in plan['items']:
            if it['kind'] == 'baddef':
                k = 'definition:' + streamsim._fk(it['fault'])
                stats.faults_fired[k] = stats.faults_fired.get(k, 0) + 1
                stats.probe('damaged_definition_%s' % it['how'])
            if it['kind'] == 'orphan':
                stats.probe('data_messages_over_ids_only_a_damaged_definition_defines')
        stats.probe('sessions_with_damaged_definition_messages')
        stats.steps += len(plan['items'])
        return
    fam = plan['family']
    if fam in ('c11', 'c12', 'c17-stream'):
        stats.steps += len(plan['items'])
        for it in plan['items']:
            if it.get('fault'):
                k = streamsim._fk(it['fault'])
                stats.faults_fired[k] = stats.faults_fired.get(k, 0) + 1
        lay = streamsim.finalize(plan)
        if any(s['must_skip'] for s in lay['segs']):
            stats.probe('must_skip_demands', sum(1 for s in lay['segs'] if s['must_skip']))
        if any(s['damaged'] and s['orig'].find(b'BUFR', 1) >= 0 for s in lay['segs']):
            stats.probe('damaged_messages_holding_a_start_signature')
        if any(s.get('lands') for s in lay['segs']):
            stats.probe('length_damage_leading_onto_a_stop_signature_that_follows')
        if any('B' in it['cls'] for it in plan['items']):
            stats.probe('embedded_signature_streams')
        if any('D' in it['cls'] and it.get('fault') for it in plan['items']):
            stats.probe('streams_with_a_data_damaged_definition_message')
        if any('D' in it['cls'] for it in plan['items']):
            stats.probe('streams_with_a_definition_message')
            if plan['knobs'].get('filter'):
                stats.probe('filtered_streams_with_a_definition_message')
        if not lay['stream']:
            stats.probe('streams_of_zero_octets')
        if any('L' in it['cls'] for it in plan['items']):
            stats.probe('streams_with_a_message_whose_header_exceeds_64KiB')
        if any(x for x in plan['seps']):
            stats.probe('streams_with_noise')
        if any(bytes.fromhex(x).endswith(b'BUF') for x in plan['seps'][:-1]):
            stats.probe('separator_ends_with_BUF')
        if tr.get('stderr_skips'):
            stats.probe('skip_notices', tr['stderr_skips'])
        stats.probe('front_' + plan['knobs']['front'])
        stats.probe('mode_' + plan['knobs']['mode'])
        if plan['knobs'].get('filter'):
            stats.probe('filtered_streams')
        if plan['knobs'].get('kin'):
            stats.probe('filtered_streams_of_messages_with_identical_sections_1_to_3')
        if plan.get('sub') == 'big':
            size = len(lay['stream'])
            stats.probe('long_streams')
            stats.probe('long_stream_64KiB_borders_crossed', size // 65536)
            stats.__dict__['longest_stream'] = max(stats.__dict__.get('longest_stream', 0), size)
            stats.probes['longest_stream_octets'] = stats.__dict__['longest_stream']
            # a border that falls inside a message which holds a start signature before the border
            for k in range(1, size // 65536 + 1):
                cutp = k * 65536
                for sg in lay['segs']:
                    if sg['start'] < cutp < sg['end'] and sg['bytes'].find(b'BUFR', 1, cutp - sg['start']) > 0:
                        stats.probe('64KiB_border_inside_a_message_after_an_embedded_signature')
        if plan.get('sub') == 'eof':
            stats.probe('streams_ending_inside_a_message')
            cut = plan['items'][-1]['fault']['cut']
            w = streamsim.bufrgen.walk(bytes.fromhex(plan['items'][-1]['hex']))
            sec = [k for k, (o, l) in w['sections'].items() if o <= cut < o + l]
            stats.probe('eof_in_section_%s' % (sec[0] if sec else (0 if cut < 8 else 5)))
        if plan['knobs'].get('warm'):
            stats.probe('decoder_used_before_' + plan['knobs']['warm']['how'])
        if plan['knobs'].get('compiled') is not None:
            stats.probe('compiled_decoder_streams')
        if tr.get('exc'):
            stats.probe('runs_ending_in_exception')
    elif fam == 'c12-enum':
        subs = streamsim.enum_subplans(plan)
        n = sum(1 for x in subs if x is not None)
        stats.steps += n
        stats.probe('enumerated_faults', n)
        stats.probe('enumerated_faults_rejected_by_guards', len(subs) - n)
        stats.probe('messages_with_every_fault_enumerated')
        for sub in subs:
            if sub is None:
                continue
            for it in sub['items']:
                if it.get('fault'):
                    k = streamsim._fk(it['fault'])
                    stats.faults_fired[k] = stats.faults_fired.get(k, 0) + 1
            if any(x['must_skip'] for x in streamsim.finalize(sub)['segs']):
                stats.probe('must_skip_demands')
    elif fam == 'c12-trunc':
        stats.steps += tr['n']
        stats.faults_fired['trunc'] = stats.faults_fired.get('trunc', 0) + tr['n']
        if plan.get('exhaustive'):
            stats.probe('messages_truncated_exhaustively')
        else:
            stats.probe('messages_truncated_sampled')
        for k, v in tr['types'].items():
            stats.probe('trunc_exc:' + k, v)
        stats.probe('trunc_prefixes_info_only_ok', tr['info_ok'])
    elif fam == 'c12-tail':
        stats.steps += 1
        stats.probe('tail_' + plan['knobs']['tail_kind'])
    elif fam == 'c17-multi':
        stats.steps += sum(1 + len(it['exprs']) for it in plan['items'])
        stats.probe('querent_reused_over_messages', len(plan['items']))
        has2 = set('2' in it['cls'] for it in plan['items'])
        if len(has2) == 2:
            stats.probe('querent_sees_section2_present_and_absent')
        for it in plan['items']:
            if it.get('fault'):
                stats.faults_fired['data:' + it['fault']['region']] = stats.faults_fired.get('data:' + it['fault']['region'], 0) + 1
    elif fam == 'c17':
        if 'D' in plan['items'][0]['cls']:
            stats.probe('definition_message_decoded_metadata_only')
        if 'L' in plan['items'][0]['cls']:
            stats.probe('message_whose_header_exceeds_64KiB')
        stats.steps += 1 + len(plan.get('exprs', []))
        f = plan['items'][0].get('fault')
        if f:
            stats.faults_fired['data:' + f['region']] = stats.faults_fired.get('data:' + f['region'], 0) + 1
            if tr.get('full') != 'ok':
                stats.probe('data_damage_breaks_full_decode')
            else:
                stats.probe('data_damage_full_decode_still_ok')
        for ex, st, _v in tr.get('q', []):
            stats.probe('mdq_' + streamsim.expr_class(ex) + '_' + st)
        for ex, front, _val, err, _exc in tr.get('cli', []):
            stats.probe('mdq_cli_%s_%s_%s' % (front, streamsim.expr_class(ex), 'err' if err else 'ok'))


ASSUME_STREAM = [
    'the independent writer/section walker in sim/bufrgen.py reads the standard correctly (admission compares '
    'every synthetic message with the library once; mismatches are reported as POOL-MISMATCH, not hidden)',
    'pool messages are those that decode alone in a pristine process; messages of data category 11 from the '
    'corpus are kept out of streams (they legitimately change how later messages decode - C20)',
    'a clean batch is evidence for the sampled streams, not a proof',
]


def c11(tier):
    return runner.check_main(
        'C11', tier, streamsim, 'streamsim',
        [('c11', 1400, 40000), ('c11-big', 48, 1500)],
        'exploration',
        'seeded streams of 0..8 pool messages x separators (empty, GTS headers, noise, partial signatures, stop '
        'signatures, ...BUF directly before a message) x full/info-only x continue flag x API/CLI front ends x '
        'metadata filters; plus long streams of 66..300 KB (family c11-big: borders of whatever reads the input in '
        'pieces fall inside messages); a case is one stream; distinct = distinct abstract run shape (sequence of (message '
        'class, separator class) + mode + front end + compiled + filter class); non-trivial = >=2 messages or a '
        'non-empty separator or an embedded start signature',
        ASSUME_STREAM, _account_stream, design_ref='4.2')


def c12(tier):
    return runner.check_main(
        'C12', tier, streamsim, 'streamsim',
        [('c12', 1500, 40000), ('c12-eof', 400, 12000), ('c12-enum', 48, 1500), ('c12-trunc', 60, 1200),
         ('c12-tail', 200, 4000), ('c12-def', 250, 8000, 'defsim')],
        'fault_enumeration',
        'seeded streams of 2..8 messages, each message damaged with seeded probability by one of {stopsig, '
        'undef_el, undef_seq, len-, len+} (every subset of damaged messages occurs), full/info-only, with and '
        'without continue-on-error, API and CLI; per sampled message A next to an intact message B EVERY fault of '
        'the named kinds at EVERY position (each descriptor position x {undefined element, undefined sequence}, '
        'each section x each length delta, stop-signature variants), one pristine process per fault (family '
        'c12-enum); plus per sampled message every truncation point (exhaustive '
        '<=1000 B quick / <=6000 B thorough, section edges + sampled cuts above) and arbitrary tails; plus streams '
        'whose producer crashes (end of input at a seeded octet of the last message - family c12-eof); distinct = '
        'abstract run shape (per message: class, fault kind+section+sign, separator class; mode; continue flag; '
        'front end); non-trivial = at least one fault fired and at least one undamaged message present',
        ASSUME_STREAM + [
            'a skip is demanded only where decoding provably cannot succeed (stop signature changed; declared '
            'lengths followed through the stream do not land on 7777; undefined descriptor at a top-level '
            'position not preceded by 206YYY, n_subsets>=1); elsewhere only isolation is demanded',
            'damaged messages contain no start signature after offset 0'],
        _account_stream, design_ref='4.3')


def c17(tier):
    return runner.check_main(
        'C17', tier, streamsim, 'streamsim',
        [('c17', 900, 20000), ('c17-stream', 500, 12000), ('c17-multi', 500, 12000)],
        'exploration',
        'one pool message with seeded damage confined to the data section (after its 4-octet header) and section '
        '5 {bit, byte, 0xFF run, 0x00 run, random, stop signature}, decoded metadata-only and compared parameter '
        'by parameter with the undamaged metadata-only decode, plus 12 seeded %name / %k.name / malformed '
        'expressions per run (asked of the metadata-only and of the fully decoded message); one decoder and ONE '
        'querent object re-used over 2..5 messages of mixed editions / section-2 presence / decode modes; and '
        'streams of such messages scanned metadata-only (API, info -m, info -c, split); '
        'distinct = (message class, damaged region, expression classes) resp. stream shape; non-trivial = damage '
        'present',
        ASSUME_STREAM + ['the %name lookup clauses are sampled against the section contents and, for synthetic '
                         'messages, the writer\'s ground truth; this technique has no special power there'],
        _account_stream, design_ref='4.4')



def _account_def(stats, plan, tr):
    stats.steps += len(plan['items'])
    kinds = [it['kind'] for it in plan['items']]
    for k in kinds:
        stats.probe('msg_' + k)
    stats.probe('sub_' + plan['knobs'].get('sub', '?'))
    stats.probe('definitions_delivered', sum(1 for d in tr['deliveries'] if d['cat'] == 11))
    stats.probe('data_messages_compared', sum(1 for d in tr['deliveries'] if d['cat'] != 11))
    for it in plan['items']:
        if it.get('after_cached'):
            stats.probe('new_message_on_group_cached_before_definition')
        if it.get('uses_redefined'):
            stats.probe('new_message_using_redefined_id')
        if it.get('uses_ncep'):
            stats.probe('new_message_using_replication_only_sequence')
        if it.get('local_tables'):
            stats.probe('new_message_with_local_tables_defining_the_same_id')
        if it.get('resent'):
            stats.probe('definition_messages_sent_again_verbatim')
        if it.get('after_resent_definition'):
            stats.probe('new_message_after_a_resent_definition')
        if it.get('reused_template'):
            stats.probe('new_message_reusing_an_earlier_descriptor_list')
            if it.get('uses_redefined'):
                stats.probe('reused_descriptor_list_after_redefinition')
        if it['kind'] == 'def':
            for part in it.get('fixed_parts', []):
                stats.probe('definition_part_%s_under_fixed_replication' % part)
            stats.probe('b_entries', len(it['b']))
            if not it['b']:
                stats.probe('definitions_without_b_entries')
            if not it['d']:
                stats.probe('definitions_without_d_entries')
            stats.probe('d_entries', len(it['d']))
            if it.get('redefined'):
                stats.probe('redefining_definitions')
    if sum(1 for k in kinds if k == 'def') > 1:
        stats.probe('sessions_with_several_definitions')
    if tr.get('file'):
        stats.probe('table_file_equivalence_checks', len(tr['file']))
    if 'bad' in kinds:
        stats.faults_fired['stopsig'] = stats.faults_fired.get('stopsig', 0) + kinds.count('bad')
    if plan['knobs'].get('compiled') is not None:
        stats.probe('compiled_sessions')
    if plan.get('cut'):
        stats.probe('sessions_of_two_streams_scanned_by_one_decoder')
    if plan['knobs'].get('wire') is False:
        stats.probe('sessions_scanned_without_wiring')
    if plan['knobs'].get('rejects_definitions'):
        stats.probe('sessions_under_a_filter_that_rejects_the_definition_messages')
    elif plan['knobs'].get('filter'):
        stats.probe('sessions_with_an_all_accepting_filter')


def _account_hist(stats, plan, tr):
    if plan.get('engine') == 'defsim':
        return _account_def(stats, plan, tr)
    stats.steps += len(plan['ops'])
    for k, v in tr['probes'].items():
        if k.startswith('max_') or k.endswith('_final'):
            stats.probes[k] = max(stats.probes.get(k, 0), v)
        elif v:
            stats.probe(k, v)
    if tr['probes']['io_fired']:
        stats.faults_fired['table_io_error'] = stats.faults_fired.get('table_io_error', 0) + tr['probes']['io_fired']
    for op in plan['ops']:
        stats.probe('op_' + op['op'])
    if tr['probes']['max_groups'] >= 50:
        stats.probe('runs_reaching_real_limit_50')
    st, trn = histsim.abstract_states(plan, tr)
    stats.__dict__.setdefault('states', set()).update(st)
    stats.__dict__.setdefault('transitions', set()).update(trn)
    stats.probes['compared_ops'] = stats.probes.get('compared_ops', 0) + len(histsim.compared_ops(plan, tr))


def _extra_hist(stats):
    return {'states_distinct': len(getattr(stats, 'states', ())), 'transitions_distinct': len(getattr(stats, 'transitions', ())),
            'state_abstraction': '(cache limit, table groups cached, compiled templates cached over all clients); '
                                 'transitions labelled by operation kind',
            'reference_runs': histsim.REFS.computed}


ASSUME_HIST = [
    'the reference for every compared operation is the same operation executed alone (after the decode its handle '
    'needs) in a pristine forked process; a compiled client is compared with a compiled fresh client (C13) or with '
    'an interpreting fresh client (C08)',
    'an operation during which an injected table-file I/O fault actually fired is excluded from comparison; every '
    'later operation is compared exactly (c13-io family only)',
    'table-definition messages are excluded from these histories (C13 proviso)',
    'text renderings are compared after normalising the tables root directory in the first line (alias root)',
]

HIST_POOL = {'n_corpus': 60, 'n_synth': 35}
HIST_POOL_THOROUGH = {'n_corpus': 400, 'n_synth': 250, 'n_ops': 250, 'n_tabled': 150}


def c13(tier):
    return runner.check_main(
        'C13', tier, histsim, 'histsim',
        [('c13', 300, 6000), ('c13-io', 220, 3000)],
        'exploration',
        'seeded histories of 5..40 (thorough 60) operations {decode, decode_info, failing decode, render x4, data '
        'query, metadata query, script, double wire, encode, failing encode, subset+encode, table lookup, restart, '
        'invalidate, armed table-file I/O fault} by 2..4 clients (compiled cache None/0/1/2/8, bundled or alias '
        'tables root) over 6..16 messages spanning more table groups than the cache limit {1,2,3,50; 50 reached '
        'through the alias root}; a case is one history; distinct = (family, limit, client configs, op-kind '
        'sequence); non-trivial = an eviction, failed operation, fired I/O fault or restart occurred',
        ASSUME_HIST, _account_hist, extra_cov=_extra_hist,
        pool_kwargs=HIST_POOL_THOROUGH if tier == 'thorough' else dict(HIST_POOL, n_ops=50, n_tabled=20), design_ref='5.2')


def c08(tier):
    return runner.check_main(
        'C08', tier, histsim, 'histsim',
        [('c08-each', -1, -1), ('c08', 160, 4000), ('c08-def', 300, 12000, 'defsim')],
        'exploration',
        'seeded histories biased to compiling clients (cache 0/1/2/8), always containing a pair of messages with the '
        'same descriptor list under table versions where an element differs and messages with marker operators, '
        'with save -> restart -> load of compiled templates through a simulated disk; plus one fixed short history '
        'per pool program (compile, execute cached, encode, save/restart/load, execute, encode - family c08-each); '
        'plus definition/data stream sessions scanned by a compiling and an interpreting decoder in sibling '
        'processes (c08-def); every decode/encode/render '
        'by a compiling client is compared with the INTERPRETED fresh-process reference; distinct/non-trivial as '
        'for C13 (plus: a template was re-loaded)',
        ASSUME_HIST + ['"compiled == interpreted for every template" is only sampled on the templates of the pool '
                       '(corpus templates incl. marker operators, synthetic ones); deciding it for all templates is '
                       'translation validation, a different technique'],
        _account_hist, extra_cov=_extra_hist,
        pool_kwargs=dict(HIST_POOL_THOROUGH, n_ops=500, n_tabled=-1) if tier == 'thorough' else dict(HIST_POOL, n_ops=64, n_tabled=50),
        design_ref='5.3')


ASSUME_DEF = [
    'the independent writer sim/bufrgen.py writes the NCEP-layout definition message (the 15-descriptor template '
    '1-03-000 0-31-001 0-00-001..003 1-01-000 0-31-001 3-00-004 1-05-000 0-31-001 3-00-003 2-05-064 1-01-000 '
    '0-31-001 0-00-030) and the data messages; ground truth (raw values, widths, scales, references, units, '
    'flattened membership) is known by construction from the registry snapshot each message was written against',
    'new element ids are F=0, X in 48..63; new sequence ids F=3, X in 48..63; code/flag-table elements are '
    'defined with scale 0 and reference 0; the element name is recorded but not demanded',
    'table-file equivalence (C20.d) is checked in about a quarter of the sessions and not for replication-only '
    'sequences (their repair is only active when in-stream definitions exist)',
    'a clean batch is evidence for the sampled sessions, not a proof',
]


def c20(tier):
    return runner.check_main(
        'C20', tier, defsim, 'defsim',
        [('c20', 500, 20000), ('c20-redef', 400, 16000), ('c20-ncep', 300, 12000), ('c20-fixed', 200, 8000)],
        'exploration',
        'seeded stream sessions of 3..14 messages {std data message (table group cached before a definition), '
        'definition message with 1..8 new Table B and 0..4 new Table D entries, data message over defined and '
        'standard descriptors (1..3 subsets, compressed or not), stop-signature-damaged message under '
        'continue-on-error} with seeded separators, scanned by the real generate_bufr_message in one process; '
        'families: disjoint ids accumulate / later definitions re-define ids / replication-only sequences; '
        'oracle = registry model + writer ground truth (+ the same message decoded against table files holding '
        'the registry); distinct = (family, per message: kind, #B, #D, redefines?, uses replication-only '
        'sequence?, first use of a table group cached before the definition?, uses a re-defined id?; '
        'continue flag; file check); non-trivial = a data message over defined ids follows a definition',
        ASSUME_DEF, _account_def, design_ref='6')


def _account_sub(stats, plan, tr):
    stats.steps += sum(len(o) for o in plan['orders'])
    stats.probe('kind_' + plan['kind'])
    stats.probe('program_' + plan['opkind'])
    stats.probe('subsets_decoded_together', sum(len(plan['orders'][ev['o']]) for ev in tr['events'] if ev['via'] != 'encode'))
    for ev in tr['events']:
        stats.probe('together_' + {'writer': 'written_by_the_independent_writer', 'encoder': 'decoded_from_the_library_encoder',
                                   'encode': 'encoded_by_the_library'}[ev['via']])
        if 'exc' in ev:
            stats.probe('together_operations_raising')
    for o in plan['orders']:
        if len(set(o)) < len(o):
            stats.probe('orders_repeating_a_content')
        if len(set(plan['alone'][i]['nbits'] for i in o)) > 1:
            stats.probe('orders_whose_subsets_differ_in_bit_length')
        if len(set(plan['alone'][i]['dig']['c'] for i in o)) > 1:
            stats.probe('orders_whose_subsets_differ_in_value_count')
    if len(plan['orders']) > 1 and sorted(plan['orders'][0]) == sorted(plan['orders'][1]) and plan['orders'][0] != plan['orders'][1]:
        stats.probe('permuted_orders')
    if plan.get('compiled') is not None:
        stats.probe('compiled_decoder_runs')
    stats.__dict__.setdefault('programs', set()).add(plan['ref'])
    stats.probes['distinct_programs_visited'] = len(stats.__dict__['programs'])


ASSUME_SUB = [
    'the reference for every subset content is that content decoded ALONE (single-subset message) in a pristine '
    'forked process: values, labels, attribute links, hierarchical rendering, and the number of data bits consumed '
    '(measured by a call-through wrapper around Decoder.process_template_data in the reference process only)',
    'the together message is written without library code: sections 0-3 of a single-subset message with n_subsets '
    'patched, the consumed data bits of the chosen contents one after the other, zero padding; a second together '
    'message is made by the library encoder from the alone value lists',
    'corpus groups (multi-subset messages cut by the library subset()+encoder) are kept only when the pieces, '
    'concatenated bit by bit, ARE the data bits of the original message (checked without library code)',
    'a compiling decoder is compared with contents decoded alone by a compiling decoder (what compilation changes is C08)',
    'a clean batch is evidence for the sampled programs and orders, not a proof',
]


def c06(tier):
    return runner.check_main(
        'C06', tier, subsim, 'subsim',
        [('c06-each', -1, -1), ('c06', 1500, 40000)],
        'exploration',
        'a case is one run: one program (operator program, program ending inside an operator construct / leaving a '
        'bitmap open / cancelling or re-using bitmaps, plain template, corpus message) x 2..3 orders (repeats '
        'allowed; an order and a permutation of it) of its 1..16 alone data contents (delayed replication factors '
        '0..3, other bitmap arrangements, other values) decoded together by ONE decoder object and encoded together '
        'by one encoder; distinct = (program kind, shape, compiled?, order patterns); non-trivial = the layout '
        '(bit length or value count) differs between subsets of an order',
        ASSUME_SUB, _account_sub, design_ref='15')


CHECKS = {'C06': c06, 'C11': c11, 'C12': c12, 'C17': c17, 'C13': c13, 'C08': c08, 'C20': c20}
ENGINES = {'C06': subsim, 'C11': streamsim, 'C12': streamsim, 'C17': streamsim, 'C13': histsim, 'C08': histsim, 'C20': defsim}


def replay(prop, path):
    with open(path) as f:
        body = json.load(f)
    eng = ENGINES[prop]
    engine_name = body['plan'].get('engine')
    if engine_name == 'histsim':
        from sim import histsim
        eng = histsim
    elif engine_name == 'defsim':
        from sim import defsim
        eng = defsim
    elif engine_name == 'subsim':
        eng = subsim
    return runner.replay(prop, path, eng)
