"""
core -- seeds, pristine-fork executor, parallel map, shrinking, replay files, known findings,
evidence writer.  Nothing in here decodes anything: the orchestrator process stays pristine.
"""
import faulthandler
import hashlib
import json
import os
import tempfile
import select
import signal
import sys
import time
import traceback

VERIF_DIR = os.path.dirname(os.path.dirname(os.path.abspath(__file__)))
REPO = os.environ.get('VERIF_REPO', '/repo')
if sys.path[0] != REPO:
    sys.path.insert(0, REPO)

EXIT_OK, EXIT_VIOLATION, EXIT_HARNESS = 0, 1, 2


class HarnessError(Exception):
    pass


class StepBudgetExceeded(BaseException):
    """Raised inside a run by the step counter (sim/observe.py) when the library has executed more
    replication-loop steps than any legitimate input of the size we generate needs. Deliberately not an
    Exception: neither the library's handlers nor the engines' `except Exception` see it. A run that ends
    this way is INCONCLUSIVE (counted, never a pass for that run and never a violation): the count is a
    pure function of the input, so the classification replays exactly - unlike a wall-clock timeout."""


# ----------------------------------------------------------------------------
# seeds
def master_seed():
    try:
        return int(os.environ.get('VERIF_SEED', '20260929'))
    except ValueError:
        return int(hashlib.sha256(os.environ['VERIF_SEED'].encode()).hexdigest()[:12], 16)


def derive_seed(master, engine, family, index):
    h = hashlib.sha256(('%d|%s|%s|%d' % (master, engine, family, index)).encode()).hexdigest()
    return int(h[:15], 16)


def jobs():
    try:
        return max(1, int(os.environ.get('VERIF_JOBS', '0')) or (os.cpu_count() or 4))
    except ValueError:
        return os.cpu_count() or 4


def sha(obj):
    if not isinstance(obj, (bytes, bytearray)):
        obj = json.dumps(obj, sort_keys=True, default=repr).encode()
    return hashlib.sha1(obj).hexdigest()[:16]


def repo_hash():
    """content hash of every file under $VERIF_REPO/pybufrkit"""
    h = hashlib.sha1()
    base = os.path.join(REPO, 'pybufrkit')
    for dirpath, dirnames, filenames in os.walk(base):
        dirnames.sort()
        if '__pycache__' in dirnames:
            dirnames.remove('__pycache__')
        for fn in sorted(filenames):
            p = os.path.join(dirpath, fn)
            h.update(os.path.relpath(p, base).encode())
            with open(p, 'rb') as f:
                h.update(hashlib.sha1(f.read()).digest())
    return h.hexdigest()[:16]


# ----------------------------------------------------------------------------
# one run = one process lifetime
_IN_CHILD = {'limit': None}


def _child_main(fn, arg, wfd, limit):
    try:
        _IN_CHILD['limit'] = limit
        faulthandler.enable()
        faulthandler.dump_traceback_later(limit, exit=True)
        import logging
        logging.disable(logging.CRITICAL)
        devnull = os.open(os.devnull, os.O_WRONLY)
        os.dup2(devnull, 1)
        os.dup2(devnull, 2)
        # The run executes in a thread of its own: its Python stack starts empty, so the depth at which the
        # interpreter's recursion limit would strike is the same for a direct child, a pool worker's child
        # and a nested child (seen: a RecursionError inside the library whose raise site moved with the
        # depth of the caller).
        box = {}

        def body():
            try:
                box['res'] = {'ok': True, 'result': fn(arg)}
            except StepBudgetExceeded:
                box['res'] = {'ok': True, 'result': {'budget_exceeded': True}}
            except BaseException:
                box['res'] = {'ok': False, 'harness_error': traceback.format_exc()[-4000:]}
        import threading
        t = threading.Thread(target=body)
        t.start()
        t.join()
        res = box.get('res') or {'ok': False, 'harness_error': 'run thread ended without a result'}
        data = json.dumps(res).encode()
        off = 0
        while off < len(data):
            off += os.write(wfd, data[off:off + 65536])
        os.close(wfd)
    finally:
        os._exit(0)


def run_in_child(fn, arg, limit=60):
    """Execute fn(arg) in a freshly forked child of this (pristine) process and return its
    JSON result. Raises HarnessError on crash, timeout or harness exception."""
    rfd, wfd = os.pipe()
    nested = _IN_CHILD['limit'] is not None
    if nested:
        # a watchdog thread does not survive fork but its lock would: disarm around the fork
        faulthandler.cancel_dump_traceback_later()
    pid = os.fork()
    if pid == 0:
        os.close(rfd)
        _child_main(fn, arg, wfd, limit)
    if nested:
        faulthandler.dump_traceback_later(_IN_CHILD['limit'], exit=True)
    os.close(wfd)
    chunks = []
    deadline = time.time() + limit + 5
    try:
        while True:
            left = deadline - time.time()
            if left <= 0:
                os.kill(pid, signal.SIGKILL)
                os.waitpid(pid, 0)
                raise HarnessError('child timed out after %ss' % limit)
            r, _, _ = select.select([rfd], [], [], min(left, 5))
            if r:
                b = os.read(rfd, 1 << 20)
                if not b:
                    break
                chunks.append(b)
    finally:
        os.close(rfd)
    _, status = os.waitpid(pid, 0)
    data = b''.join(chunks)
    if not data:
        raise HarnessError('child died without result (status %r)' % (status,))
    res = json.loads(data.decode())
    if not res.get('ok'):
        raise HarnessError('harness exception in child:\n' + res.get('harness_error', '?'))
    return res['result']


# The worker pool: long-lived pristine workers, each forking one grandchild per run.
_WORK = {}


def _worker_call(packed):
    name, arg, limit = packed
    try:
        return ('ok', run_in_child(_WORK[name], arg, limit))
    except HarnessError as e:
        return ('harness', str(e))


def register(name, fn):
    _WORK[name] = fn


def pmap(name, args, limit=60, njobs=None):
    """Ordered parallel map of a registered function over args; every call in a pristine
    grandchild. Returns list of ('ok', result) | ('harness', message)."""
    args = list(args)
    njobs = njobs or jobs()
    if not args:
        return []
    if njobs == 1 or len(args) == 1:
        return [_worker_call((name, a, limit)) for a in args]
    import multiprocessing
    from concurrent.futures import ProcessPoolExecutor
    ctx = multiprocessing.get_context('fork')
    with ProcessPoolExecutor(max_workers=min(njobs, len(args)), mp_context=ctx) as ex:
        chunk = max(1, min(16, len(args) // (njobs * 4) or 1))
        return list(ex.map(_worker_call, [(name, a, limit) for a in args], chunksize=chunk))


# ----------------------------------------------------------------------------
# known findings
def load_known_findings():
    path = os.path.join(VERIF_DIR, 'known_findings.jsonl')
    out = []
    if os.path.exists(path):
        with open(path) as f:
            for line in f:
                line = line.strip()
                if not line or line.startswith('#') or line.startswith('fixed:'):
                    continue
                out.append(json.loads(line))
    return out


def match_known(sig, known):
    for k in known:
        ks = k['signature']
        if k['property'] == sig.get('property') and all(sig.get(a) == b for a, b in ks.items()):
            return k
    return None


# ----------------------------------------------------------------------------
# shrinking
def shrink(plan, candidates_fn, still_fails, max_execs=260, wall=150):
    """Greedy delta debugging. candidates_fn(plan) yields smaller plans; still_fails(plan) -> bool
    executes a candidate in a pristine child and checks the same signature persists."""
    t0 = time.time()
    execs = 0
    improved = True
    while improved and execs < max_execs and time.time() - t0 < wall:
        improved = False
        for cand in candidates_fn(plan):
            if execs >= max_execs or time.time() - t0 > wall:
                break
            execs += 1
            try:
                if still_fails(cand):
                    plan = cand
                    improved = True
                    break
            except HarnessError:
                continue
    return plan, execs


def write_replay(prop, plan, signature, found_by, minimised, shrink_execs):
    d = os.environ.get('VERIF_REPLAY_DIR') or os.path.join(VERIF_DIR, 'replays')
    os.makedirs(d, exist_ok=True)
    body = {'property': prop, 'plan': plan, 'signature': signature, 'minimised': minimised,
            'shrink_execs': shrink_execs, 'found_by': found_by, 'repo_hash': repo_hash()}
    path = os.path.join(d, '%s-%s-%s.json' % (prop, found_by.get('run_seed', 0), sha(body['plan'])))
    with open(path, 'w') as f:
        json.dump(body, f, indent=1, sort_keys=True)
    return path


# ----------------------------------------------------------------------------
# evidence
def write_evidence(prop, tier, seed, level, coverage, wall_s, violations, assumptions, extra=None):
    d = os.environ.get('VERIF_EVIDENCE_DIR') or os.path.join(VERIF_DIR, 'evidence')
    if not os.environ.get('VERIF_EVIDENCE_DIR') and (os.environ.get('VERIF_FAMILIES') or os.environ.get('VERIF_SCALE')):
        # an experiment (some families only, scaled counts) is not a record of the check: keep it out of evidence/
        d = os.path.join(tempfile.gettempdir(), 'verif-experiment-evidence')
    os.makedirs(d, exist_ok=True)
    ev = {'property_id': prop, 'tier': tier, 'seed': seed, 'level': level, 'coverage': coverage,
          'assumptions': assumptions, 'wall_s': round(wall_s, 2), 'violations': violations}
    if extra:
        ev.update(extra)
    tmp = os.path.join(d, '.%s.json.tmp' % prop)
    with open(tmp, 'w') as f:
        json.dump(ev, f, indent=1, sort_keys=True, default=repr)
    os.replace(tmp, os.path.join(d, '%s.json' % prop))


class Report(object):
    """Collects verdicts of one check invocation and turns them into output + exit code."""

    def __init__(self, prop):
        self.prop = prop
        self.known = load_known_findings()
        self.violations = []      # (signature, plan, found_by)
        self.known_hits = {}      # what -> count
        self.harness = []
        self.sig_seen = {}

    def add(self, signature, plan, found_by):
        key = json.dumps(dict((a, b) for a, b in signature.items() if a != 'fault_kind'), sort_keys=True)
        k = match_known(signature, self.known)
        if k is not None:
            self.known_hits[k['what']] = self.known_hits.get(k['what'], 0) + 1
            return 'known'
        self.sig_seen[key] = self.sig_seen.get(key, 0) + 1
        if self.sig_seen[key] == 1:
            self.violations.append((signature, plan, found_by))
        return 'violation'

    def add_harness(self, msg):
        self.harness.append(msg)

    def finish(self, shrink_one, max_reports=6):
        """shrink_one(signature, plan) -> (plan, minimised, execs). Prints lines, returns exit code."""
        max_reports = int(os.environ.get('VERIF_MAX_REPORTS', max_reports))
        for what, n in sorted(self.known_hits.items()):
            print('KNOWN-FINDING: property=%s %s (hit %d times)' % (self.prop, what, n))
        for sig, plan, found_by in self.violations[:max_reports]:
            try:
                splan, minimised, execs = shrink_one(sig, plan)
            except Exception:
                splan, minimised, execs = plan, False, 0
            path = write_replay(self.prop, splan, sig, found_by, minimised, execs)
            print('VIOLATION property=%s replay=%s' % (self.prop, path))
            print('  signature: %s' % json.dumps(sig, sort_keys=True))
        if os.environ.get('VERIF_DEBUG'):
            for key, n in sorted(self.sig_seen.items(), key=lambda kv: -kv[1]):
                print('  [%5d] %s' % (n, key))
        if len(self.violations) > max_reports:
            print('  (%d further distinct violation signatures not minimised)' %
                  (len(self.violations) - max_reports))
        if self.harness:
            print('HARNESS-ERROR property=%s count=%d first=%s' % (self.prop, len(self.harness),
                                                                 self.harness[0][:2000]))
        sys.stdout.flush()
        if self.violations:
            return EXIT_VIOLATION
        if self.harness:
            return EXIT_HARNESS
        return EXIT_OK
