"""
bufrgen -- an independent BUFR writer, section walker and fault applicators.

Shares no code with pybufrkit: own bit packer, own reading of TableB.json /
TableD.json, own idea of the section layouts of editions 2, 3 and 4 (the edition
3 layout is the one pybufrkit's definitions use: 18 octets, including `second`).
Everything here is a pure function of its arguments.
"""
import json
import os

REPO = os.environ.get('VERIF_REPO', '/repo')
TABLES_ROOT = os.path.join(REPO, 'pybufrkit', 'tables')

STRING_UNIT = 'CCITT IA5'


# ----------------------------------------------------------------------------
# bit packing
class BitPacker(object):
    def __init__(self):
        self.bits = []          # list of (value, nbits)
        self.n = 0

    def uint(self, value, nbits):
        assert 0 <= value < (1 << nbits) or nbits == 0, (value, nbits)
        if nbits:
            self.bits.append((value, nbits))
            self.n += nbits

    def raw(self, b):
        for x in bytearray(b):
            self.uint(x, 8)

    def to_bytes(self):
        acc = 0
        for v, n in self.bits:
            acc = (acc << n) | v
        pad = (-self.n) % 8
        acc <<= pad
        return acc.to_bytes((self.n + pad) // 8, 'big')


# ----------------------------------------------------------------------------
# tables, read independently
_TABLE_CACHE = {}


def table_versions():
    return sorted(int(v) for v in os.listdir(os.path.join(TABLES_ROOT, '0', '0_0')))


def load_tables(version, root=None):
    """-> (b, d): b = {id: (name, unit, scale, ref, nbits)}, d = {id: [member ids]}"""
    root = root or TABLES_ROOT
    key = (root, version)
    if key not in _TABLE_CACHE:
        base = os.path.join(root, '0', '0_0', str(version))
        with open(os.path.join(base, 'TableB.json')) as f:
            rb = json.load(f)
        with open(os.path.join(base, 'TableD.json')) as f:
            rd = json.load(f)
        b = dict((int(k), (v[0], v[1], v[2], v[3], v[4])) for k, v in rb.items())
        d = dict((int(k), [int(x) for x in v[1]]) for k, v in rd.items())
        _TABLE_CACHE[key] = (b, d)
    return _TABLE_CACHE[key]


def load_tables_local(version, centre, subcentre, local_version, root=None):
    """WMO tables of `version` overlaid with the local tables <centre>_<subcentre>/<local_version>
    (or <centre>_0/<local_version>) when that directory exists; local entries win."""
    b, d = load_tables(version, root)
    if not local_version:
        return b, d
    root = root or TABLES_ROOT
    for cs in ('%d_%d' % (centre, subcentre), '%d_0' % centre):
        base = os.path.join(root, '0', cs, str(local_version))
        if os.path.isdir(base):
            key = (root, version, cs, local_version)
            if key not in _TABLE_CACHE:
                with open(os.path.join(base, 'TableB.json')) as f:
                    rb = json.load(f)
                with open(os.path.join(base, 'TableD.json')) as f:
                    rd = json.load(f)
                b2 = dict(b)
                b2.update((int(k), (v[0], v[1], v[2], v[3], v[4])) for k, v in rb.items())
                d2 = dict(d)
                d2.update((int(k), [int(x) for x in v[1]]) for k, v in rd.items())
                _TABLE_CACHE[key] = (b2, d2)
            return _TABLE_CACHE[key]
    return b, d


_ALL_DEFINED = []


def all_defined_ids():
    """Every element / sequence id defined in any bundled table file (WMO and local)."""
    if not _ALL_DEFINED:
        ids = set()
        for dirpath, _dirnames, filenames in os.walk(TABLES_ROOT):
            for fn in filenames:
                if fn in ('TableB.json', 'TableD.json'):
                    with open(os.path.join(dirpath, fn)) as f:
                        ids.update(int(k) for k in json.load(f).keys())
        _ALL_DEFINED.append(ids)
    return _ALL_DEFINED[0]


def undefined_element_ids():
    d = all_defined_ids()
    return [x * 1000 + y for x in (37, 38, 39, 43, 44, 45, 46, 47, 32, 34)
            for y in range(1, 192) if (x * 1000 + y) not in d]


def special_undefined_element_ids():
    """undefined element ids at the edges of the id space and in the classes the library treats specially
    (0, 1-9, 31, 33, local Y >= 192, X = 63): 000000 looks like zero padding, 031255 like a replication factor"""
    d = all_defined_ids()
    cand = [0, 255, 1255, 2250, 8250, 9255, 12250, 12255, 31255, 31250, 33255, 33250, 48000, 63000, 63250, 63255]
    return [x for x in cand if x not in d]


def undefined_sequence_ids():
    d = all_defined_ids()
    return [300000 + x * 1000 + y for x in (41, 42, 43, 44, 45, 46, 47, 30, 33)
            for y in range(1, 192) if (300000 + x * 1000 + y) not in d]


def sequence_is_plain(d, b, sid, depth=0):
    """True when the sequence expands to Table B elements (no class 31), fixed
    replication and plain sequences only -- no operators, no delayed replication,
    every member defined."""
    if depth > 6 or sid not in d:
        return False
    ids = d[sid]
    i = 0
    while i < len(ids):
        x = ids[i]
        f = x // 100000
        if f == 0:
            if x not in b or (x // 1000) in (0, 31, 33):
                return False
        elif f == 1:
            if x % 1000 == 0:
                return False
            n = (x // 1000) % 100
            if i + n > len(ids) - 1:
                return False
        elif f == 2:
            return False
        else:
            if not sequence_is_plain(d, b, x, depth + 1):
                return False
        i += 1
    return True


# ----------------------------------------------------------------------------
# templates: nested description -> flat unexpanded ids
#   ['e', id] | ['f', count, [members]] | ['d', factor_id, [members]] | ['s', id]
def flat_ids(nodes):
    out = []
    for n in nodes:
        if n[0] in ('e', 's', 'o'):
            out.append(n[1])
        elif n[0] == 'f':
            inner = flat_ids(n[2])
            out.append(100000 + len(inner) * 1000 + n[1])
            out.extend(inner)
        elif n[0] == 'd':
            inner = flat_ids(n[2])
            out.append(100000 + len(inner) * 1000)
            out.append(n[1])
            out.extend(inner)
        else:
            raise ValueError(n)
    return out


def parse_ids(ids):
    """Independent replication-scope walk of an unexpanded id list.
    -> list of nodes as above (sequences left unexpanded) with positions:
       ['e', id, pos] etc. Used to know which positions are at top level."""
    pos = [0]

    def take(seq_ids, base):
        out = []
        i = 0
        while i < len(seq_ids):
            x = seq_ids[i]
            f = x // 100000
            if f == 1:
                n = (x // 1000) % 100
                if x % 1000 == 0:
                    fac = seq_ids[i + 1] if i + 1 < len(seq_ids) else None
                    inner = seq_ids[i + 2:i + 2 + n]
                    out.append(['d', fac, take(inner, base + i + 2), base + i])
                    i += 2 + len(inner)
                else:
                    inner = seq_ids[i + 1:i + 1 + n]
                    out.append(['f', x % 1000, take(inner, base + i + 1), base + i])
                    i += 1 + len(inner)
            else:
                out.append(['e' if f == 0 else ('o' if f == 2 else 's'), x, base + i])
                i += 1
        return out
    return take(list(ids), 0)


def top_level_positions(ids):
    """Positions in the unexpanded list that are reached unconditionally: top level,
    not a replication descriptor itself, not a delayed factor, not right after 206YYY."""
    out = []
    nodes = parse_ids(ids)
    for n in nodes:
        if n[0] in ('e', 's', 'o'):
            p = n[2]
            if p > 0 and ids[p - 1] // 1000 == 206:
                continue
            out.append(p)
    return out


# ----------------------------------------------------------------------------
# expansion of a template against tables for writing data
def _expand(nodes, b, d):
    """-> tree of ['e', id, (name,unit,scale,ref,nbits)] / ['f', n, tree] / ['d', (fid, info), tree]"""
    out = []
    for n in nodes:
        if n[0] == 'e':
            out.append(['e', n[1], b[n[1]]])
        elif n[0] == 'f':
            out.append(['f', n[1], _expand(n[2], b, d)])
        elif n[0] == 'd':
            out.append(['d', (n[1], b[n[1]]), _expand(n[2], b, d)])
        elif n[0] == 's':
            sub = parse_ids(d[n[1]])
            out.append(['q', n[1], _expand([_strip(x) for x in sub], b, d)])
        elif n[0] == 'o' and 205000 < n[1] <= 205255:
            # 205YYY: YYY characters inserted as a data field
            out.append(['e', n[1], ('CHARACTERS', STRING_UNIT, 0, 0, (n[1] % 1000) * 8)])
        else:
            raise ValueError(n)
    return out


def _strip(n):
    if n[0] in ('e', 's', 'o'):
        return [n[0], n[1]]
    if n[0] == 'f':
        return ['f', n[1], [_strip(x) for x in n[2]]]
    return ['d', n[1], [_strip(x) for x in n[2]]]


def expected_value(info, raw):
    """Decoded value expected for raw bits under (name, unit, scale, ref, nbits)."""
    _name, unit, scale, ref, nbits = info
    if unit == STRING_UNIT:
        return raw
    if nbits > 1 and raw == (1 << nbits) - 1:
        return None
    v = raw + ref
    if scale != 0:
        return v / (10.0 ** scale)
    return v


# ----------------------------------------------------------------------------
# the writer
def _nbits_for_range(span):
    """bits needed so that values 0..span are representable and all-ones stays free."""
    n = 1
    while (1 << n) - 1 <= span:
        n += 1
    return n


def write_message(spec, tables=None):
    """
    spec = {
      'edition': 2|3|4, 'version': master table version, 'local_version': 0,
      'centre': int, 'subcentre': int, 'category': int, 'subcategory': int,
      'date': [y, m, d, h, mi, s],
      'sec2': None | hex string of local bytes,
      'pads': {'1': n, '2': n, '3': 0|1, '4': n},
      'compressed': bool,
      'template': nested nodes, 'subsets': [[raw, ...], ...]   raw ints / hex-strings for
          character elements, one list per subset, in data order, replication factors included,
      'extra_b': {id: [name, unit, scale, ref, nbits]} optional additions (defsim)
    }
    -> (bytes, truth)
    """
    ed = spec['edition']
    if tables is None:
        b, d = load_tables_local(spec['version'], spec.get('centre', 0), spec.get('subcentre', 0),
                                 spec.get('local_version', 0))
    else:
        b, d = tables
    if spec.get('extra_b'):
        b = dict(b)
        for k, v in spec['extra_b'].items():
            b[int(k)] = tuple(v)
    if spec.get('extra_d'):
        d = dict(d)
        for k, v in spec['extra_d'].items():
            d[int(k)] = [int(x) for x in v]
    pads = spec.get('pads') or {}
    comp = bool(spec.get('compressed'))
    if 'raw_ids' in spec:
        # operator-bearing templates: descriptor list and data bits are given as they are; the data
        # section content is not modelled (no ground truth), only framed
        ids = list(spec['raw_ids'])
        nsub = spec.get('nsub', 1)
        return _frame(spec, ids, bytes.fromhex(spec['raw_data']), nsub, comp, pads, None, {})
    ids = list(spec['ids_override']) if spec.get('ids_override') else flat_ids(spec['template'])
    tree = _expand(spec['template'], b, d)
    nsub = len(spec['subsets'])

    # ---- data section bits
    bp = BitPacker()
    truth_subsets = []
    per_subset = []
    for raws in spec['subsets']:
        it = iter(raws)
        slots = []

        def walk(t, it=it, slots=slots):
            for n in t:
                if n[0] == 'e':
                    slots.append((n[1], n[2], next(it)))
                elif n[0] == 'f':
                    for _ in range(n[1]):
                        walk(n[2])
                elif n[0] == 'q':
                    walk(n[2])
                else:
                    k = next(it)
                    slots.append((n[1][0], n[1][1], k))
                    for _ in range(k):
                        walk(n[2])
        walk(tree)
        rest = list(it)
        assert not rest, 'surplus raw values: %r' % (rest,)
        per_subset.append(slots)

    def as_bytes(raw, nbytes):
        bb = bytes.fromhex(raw) if isinstance(raw, str) else bytes(raw)
        assert len(bb) == nbytes, (bb, nbytes)
        return bb

    if not comp:
        for slots in per_subset:
            tr = []
            for (eid, info, raw) in slots:
                nbits = info[4]
                if info[1] == STRING_UNIT:
                    bb = as_bytes(raw, nbits // 8)
                    bp.raw(bb)
                    tr.append([eid, bb.hex(), 's'])
                else:
                    bp.uint(raw, nbits)
                    tr.append([eid, raw, 'n'])
            truth_subsets.append(tr)
    else:
        n0 = len(per_subset[0]) if per_subset else 0
        for slots in per_subset:
            assert len(slots) == n0 and [s[0] for s in slots] == [s[0] for s in per_subset[0]], \
                'compressed subsets must share structure'
        truth_subsets = [[] for _ in per_subset]
        for i in range(n0):
            eid, info, _ = per_subset[0][i]
            nbits = info[4]
            col = [s[i][2] for s in per_subset]
            if info[1] == STRING_UNIT:
                nbytes = nbits // 8
                cb = [as_bytes(x, nbytes) for x in col]
                if all(x == cb[0] for x in cb):
                    bp.raw(cb[0])
                    bp.uint(0, 6)
                else:
                    bp.raw(b'\0' * nbytes)
                    bp.uint(nbytes, 6)
                    for x in cb:
                        bp.raw(x)
                for k, x in enumerate(cb):
                    truth_subsets[k].append([eid, x.hex(), 's'])
            else:
                miss = (1 << nbits) - 1
                present = [x for x in col if not (nbits > 1 and x == miss)]
                if all(x == col[0] for x in col):
                    bp.uint(col[0], nbits)
                    bp.uint(0, 6)
                else:
                    lo = min(present)
                    nd = _nbits_for_range(max(present) - lo)
                    bp.uint(lo, nbits)
                    bp.uint(nd, 6)
                    for x in col:
                        if nbits > 1 and x == miss:
                            bp.uint((1 << nd) - 1, nd)
                        else:
                            bp.uint(x - lo, nd)
                for k, x in enumerate(col):
                    truth_subsets[k].append([eid, x, 'n'])
    data = bp.to_bytes()
    infos = dict((str(eid), list(info)) for slots in per_subset for (eid, info, _r) in slots)
    return _frame(spec, ids, data, nsub, comp, pads, truth_subsets, infos)


def _frame(spec, ids, data, nsub, comp, pads, truth_subsets, infos):
    ed = spec['edition']
    # ---- sections
    y, mo, dd, hh, mi, ss = spec.get('date') or [2020, 1, 2, 3, 4, 5]
    has2 = spec.get('sec2') is not None
    if ed == 4:
        s1 = bytes([spec.get('master_table', 0)]) + spec['centre'].to_bytes(2, 'big') + \
            spec['subcentre'].to_bytes(2, 'big') + bytes([spec.get('update', 0), 0x80 if has2 else 0,
                                                          spec['category'], spec.get('subcategory', 0),
                                                          spec.get('local_subcategory', 0),
                                                          spec['version'], spec.get('local_version', 0)]) + \
            y.to_bytes(2, 'big') + bytes([mo, dd, hh, mi, ss])
    elif ed == 3:
        s1 = bytes([spec.get('master_table', 0), spec['subcentre'], spec['centre'], spec.get('update', 0),
                    0x80 if has2 else 0, spec['category'], spec.get('local_subcategory', 0),
                    spec['version'], spec.get('local_version', 0), y % 100, mo, dd, hh, mi, ss])
    elif ed == 2:
        s1 = bytes([spec.get('master_table', 0)]) + spec['centre'].to_bytes(2, 'big') + \
            bytes([spec.get('update', 0), 0x80 if has2 else 0, spec['category'],
                   spec.get('local_subcategory', 0), spec['version'], spec.get('local_version', 0),
                   y % 100, mo, dd, hh, mi, ss])
    else:
        raise ValueError(ed)
    s1 += b'\0' * int(pads.get('1', 0))
    sec1 = (len(s1) + 3).to_bytes(3, 'big') + s1
    sec2 = b''
    if has2:
        loc = bytes.fromhex(spec['sec2']) + b'\0' * int(pads.get('2', 0))
        sec2 = (len(loc) + 4).to_bytes(3, 'big') + b'\0' + loc
    flags = (0x80 if spec.get('observed', True) else 0) | (0x40 if comp else 0)
    s3 = b'\0' + nsub.to_bytes(2, 'big') + bytes([flags]) + b''.join(
        ((i // 100000) << 14 | ((i // 1000) % 100) << 8 | (i % 1000)).to_bytes(2, 'big') for i in ids)
    s3 += b'\0' * (1 if pads.get('3') else 0)
    sec3 = (len(s3) + 3).to_bytes(3, 'big') + s3
    s4 = b'\0' + data + b'\0' * int(pads.get('4', 0))
    sec4 = (len(s4) + 3).to_bytes(3, 'big') + s4
    body = sec1 + sec2 + sec3 + sec4 + b'7777'
    total = 8 + len(body)
    msg = b'BUFR' + total.to_bytes(3, 'big') + bytes([ed]) + body

    hdr = {'length': total, 'edition': ed, 'master_table_number': spec.get('master_table', 0),
           'originating_centre': spec['centre'], 'originating_subcentre': spec['subcentre'],
           'update_sequence_number': spec.get('update', 0), 'is_section2_presents': has2,
           'data_category': spec['category'], 'master_table_version': spec['version'],
           'local_table_version': spec.get('local_version', 0),
           'data_local_subcategory': spec.get('local_subcategory', 0),
           'year': y if ed == 4 else y % 100, 'month': mo, 'day': dd, 'hour': hh, 'minute': mi, 'second': ss,
           'n_subsets': nsub, 'is_observation': bool(spec.get('observed', True)), 'is_compressed': comp,
           'unexpanded_descriptors': ids}
    if ed == 4:
        hdr['data_i18n_subcategory'] = spec.get('subcategory', 0)
    if ed == 2:
        hdr.pop('originating_subcentre')
    sections = {0: {'section_length': None}, 1: {'section_length': len(sec1)},
                3: {'section_length': len(sec3)}, 4: {'section_length': len(sec4)}}
    if has2:
        sections[2] = {'section_length': len(sec2)}
    truth = {'header': hdr, 'section_lengths': dict((str(k), v['section_length']) for k, v in sections.items()),
             'subsets': truth_subsets, 'infos': infos}
    return msg, truth


# ----------------------------------------------------------------------------
# independent section walker (by declared lengths only)
def walk(buf, start=0):
    """Follow declared lengths from `start` (must point at 'BUFR').
    -> dict or None when the fixed part is not there / edition unsupported.
       keys: edition, total, sections {idx: (offset, declared_length)}, end (offset where the
       stop signature is expected), nsub, compressed, ids, category, version"""
    if buf[start:start + 4] != b'BUFR' or len(buf) < start + 8:
        return None
    total = int.from_bytes(buf[start + 4:start + 7], 'big')
    ed = buf[start + 7]
    if ed not in (2, 3, 4):
        return None
    o = start + 8
    secs = {}
    if len(buf) < o + 18:
        return None
    l1 = int.from_bytes(buf[o:o + 3], 'big')
    secs[1] = (o, l1)
    flag_off = o + (9 if ed == 4 else 7)
    has2 = bool(buf[flag_off] & 0x80)
    if ed == 4:
        cat, ver, lver = buf[o + 10], buf[o + 13], buf[o + 14]
    elif ed == 3:
        cat, ver, lver = buf[o + 8], buf[o + 10], buf[o + 11]
    else:
        cat, ver, lver = buf[o + 8], buf[o + 10], buf[o + 11]
    o += l1
    if has2:
        if len(buf) < o + 3:
            return None
        l2 = int.from_bytes(buf[o:o + 3], 'big')
        secs[2] = (o, l2)
        o += l2
    if len(buf) < o + 7:
        return None
    l3 = int.from_bytes(buf[o:o + 3], 'big')
    secs[3] = (o, l3)
    nsub = int.from_bytes(buf[o + 4:o + 6], 'big')
    comp = bool(buf[o + 6] & 0x40)
    ids = []
    for k in range(max(0, (l3 - 7) // 2)):
        w = buf[o + 7 + 2 * k:o + 9 + 2 * k]
        if len(w) < 2:
            break
        v = int.from_bytes(w, 'big')
        ids.append((v >> 14) * 100000 + ((v >> 8) & 0x3f) * 1000 + (v & 0xff))
    o += l3
    if len(buf) < o + 3:
        return {'edition': ed, 'total': total, 'sections': secs, 'end': None, 'nsub': nsub,
                'compressed': comp, 'ids': ids, 'category': cat, 'version': ver, 'local_version': lver}
    l4 = int.from_bytes(buf[o:o + 3], 'big')
    secs[4] = (o, l4)
    o += l4
    return {'edition': ed, 'total': total, 'sections': secs, 'end': o, 'nsub': nsub,
            'compressed': comp, 'ids': ids, 'category': cat, 'version': ver, 'local_version': lver}


def carve(buf):
    """Independent carving of well-framed messages out of a file: start signature, 24-bit total
    length, stop signature at the end, and declared section lengths that add up."""
    out = []
    i = 0
    while True:
        i = buf.find(b'BUFR', i)
        if i < 0:
            break
        w = walk(buf, i)
        if w and w['end'] is not None and w['end'] + 4 == i + w['total'] and \
                buf[w['end']:w['end'] + 4] == b'7777':
            out.append(buf[i:i + w['total']])
            i += w['total']
        else:
            i += 1
    return out


# ----------------------------------------------------------------------------
# fault applicators (total length field is never touched)
def apply_fault(msg, fault):
    """-> damaged bytes. fault kinds:
       {'kind':'trunc','cut':n}
       {'kind':'stopsig','bytes':hex4}
       {'kind':'undef','pos':descriptor index,'id':new id}
       {'kind':'len','section':k,'delta':+-n}
       {'kind':'data','ops':[[offset,hexbytes],...]}  arbitrary overwrites (used for C17 data damage)
    """
    k = fault['kind']
    m = bytearray(msg)
    if k == 'trunc':
        return bytes(m[:fault['cut']])
    if k == 'stopsig':
        m[-4:] = bytes.fromhex(fault['bytes'])
        return bytes(m)
    if k == 'total':
        # the declared total length of section 0 (the one field every other fault leaves alone): only for
        # 'container' scenarios of metadata-only scanning, value computed from the stream layout
        if fault.get('value') is not None:
            m[4:7] = int(fault['value']).to_bytes(3, 'big')
        return bytes(m)
    w = walk(msg)
    if k == 'undef':
        o = w['sections'][3][0] + 7 + 2 * fault['pos']
        i = fault['id']
        v = (i // 100000) << 14 | ((i // 1000) % 100) << 8 | (i % 1000)
        m[o:o + 2] = v.to_bytes(2, 'big')
        return bytes(m)
    if k == 'len':
        o, l = w['sections'][fault['section']]
        nl = l + fault['delta']
        assert 0 <= nl < (1 << 24)
        m[o:o + 3] = nl.to_bytes(3, 'big')
        return bytes(m)
    if k == 'data':
        for off, hx in fault['ops']:
            bb = bytes.fromhex(hx)
            m[off:off + len(bb)] = bb
        if fault.get('cut') is not None:
            del m[fault['cut']:]        # the input ends inside the data section
        return bytes(m)
    raise ValueError(fault)
