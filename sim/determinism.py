"""
determinism -- prove the simulator before believing it.

For every engine family: N seeds -> plans -> traces, executed
  (1) with 16 workers, (2) again with 4 workers, (3) in a fresh interpreter under another
  PYTHONHASHSEED (a subprocess running this module with --emit),
and the SHA-256 of every plan and of every trace must agree 3-ways. Any divergence is a
HARNESS-ERROR (exit 2): a check whose runs do not replay is not believed.
"""
import hashlib
import json
import os
import subprocess
import sys
import time

from sim import core, runner

FAMILIES = [
    # engine, family, quick n, thorough n
    ('streamsim', 'c11', 60, 400), ('streamsim', 'c12', 60, 400), ('streamsim', 'c12-trunc', 6, 30),
    ('streamsim', 'c12-tail', 30, 150), ('streamsim', 'c17', 40, 300), ('streamsim', 'c17-stream', 40, 300),
    ('streamsim', 'c17-multi', 40, 300), ('streamsim', 'c12-enum', 3, 20), ('streamsim', 'c12-eof', 40, 300),
    ('histsim', 'c13', 30, 220), ('histsim', 'c13-io', 30, 220), ('histsim', 'c08', 30, 220),
    ('histsim', 'c08-each', 30, 220),
    ('defsim', 'c20', 30, 220), ('defsim', 'c20-redef', 30, 220), ('defsim', 'c20-ncep', 30, 220),
    ('defsim', 'c20-fixed', 30, 220), ('defsim', 'c08-def', 30, 220),
    ('subsim', 'c06', 60, 400), ('subsim', 'c06-each', 40, 300), ('defsim', 'c12-def', 30, 220),
]


def _sha(obj):
    return hashlib.sha256(json.dumps(obj, sort_keys=True, default=repr).encode()).hexdigest()[:24]


def compute(tier, njobs, seed):
    """-> {key: [plan sha, trace sha]}"""
    out = {}
    pools = {}
    for eng_name, fam, qn, tn in FAMILIES:
        n = qn if tier == 'quick' else tn
        eng = runner.engine_module(eng_name)
        if getattr(eng, 'NEEDS_POOL', True):
            if eng_name not in pools:
                kw = {'n_corpus': 40, 'n_synth': 40, 'n_ops': 30}
                pool, _info = runner.build_pool(seed, 'quick', **kw)
                if hasattr(eng, 'prepare_pool'):
                    pool = eng.prepare_pool(pool)
                pools[eng_name] = pool
            pool = pools[eng_name]
        elif hasattr(eng, 'build_pool'):
            if eng_name not in pools:
                pools[eng_name] = eng.build_pool(seed, 'quick')[0]
            pool = pools[eng_name]
        else:
            pool = []
        if fam.endswith('-each'):
            plans = [eng.gen_plan(fam, core.derive_seed(seed, eng_name, fam, i), pool, tier, index=i) for i in range(n)]
        else:
            plans = [eng.gen_plan(fam, core.derive_seed(seed, eng_name, fam, i), pool, tier) for i in range(n)]
        res = core.pmap(eng_name, plans, limit=180, njobs=njobs)
        for i, (p, (st, tr)) in enumerate(zip(plans, res)):
            if st != 'ok':
                raise core.HarnessError('determinism: run failed %s/%s/%d: %s' % (eng_name, fam, i, tr))
            out['%s/%s/%d' % (eng_name, fam, i)] = [_sha(p), _sha(tr)]
    return out


def main(ns):
    seed = core.master_seed() + 7
    tier = ns.tier
    if getattr(ns, 'emit', False):
        h = compute(tier, 8, seed)
        sys.stdout.write('DETERMINISM-HASHES ' + json.dumps(h, sort_keys=True) + '\n')
        return core.EXIT_OK
    t0 = time.time()
    print('determinism self-test: tier=%s seed=%d PYTHONHASHSEED=%s' % (tier, seed, os.environ.get('PYTHONHASHSEED')))
    h1 = compute(tier, 16, seed)
    print('  pass 1 (16 workers): %d runs (%.0fs)' % (len(h1), time.time() - t0))
    h2 = compute(tier, 4, seed)
    print('  pass 2 (4 workers):  %d runs (%.0fs)' % (len(h2), time.time() - t0))
    env = dict(os.environ)
    env['PYTHONHASHSEED'] = '4242'
    env['VERIF_TIER'] = tier
    cmd = [sys.executable, os.path.join(core.VERIF_DIR, 'check'), 'selftest', '--determinism', '--emit', '--tier', tier]
    pr = subprocess.run(cmd, env=env, stdout=subprocess.PIPE, stderr=subprocess.PIPE, timeout=3600)
    h3 = None
    for line in pr.stdout.decode().splitlines():
        if line.startswith('DETERMINISM-HASHES '):
            h3 = json.loads(line[len('DETERMINISM-HASHES '):])
    if h3 is None:
        print('HARNESS-ERROR determinism: fresh interpreter gave no hashes (exit %d): %s' %
              (pr.returncode, pr.stderr.decode()[-800:]))
        return core.EXIT_HARNESS
    print('  pass 3 (fresh interpreter, PYTHONHASHSEED=4242, 8 workers): %d runs (%.0fs)' % (len(h3), time.time() - t0))
    bad = []
    for k in sorted(h1):
        a, b, c = h1[k], h2.get(k), h3.get(k)
        if not (a == b == c):
            bad.append((k, a, b, c))
    rep = {'tier': tier, 'seed': seed, 'runs_per_pass': len(h1), 'passes': 3,
           'divergent': [b[0] for b in bad], 'wall_s': round(time.time() - t0, 1),
           'families': sorted(set(k.rsplit('/', 1)[0] for k in h1))}
    d = os.path.join(core.VERIF_DIR, 'selftest')
    os.makedirs(d, exist_ok=True)
    with open(os.path.join(d, 'determinism-%s.json' % tier), 'w') as f:
        json.dump(rep, f, indent=1, sort_keys=True)
    if bad:
        for k, a, b, c in bad[:10]:
            print('  DIVERGENT %s: plan %s/%s/%s trace %s/%s/%s' % (k, a[0], b and b[0], c and c[0], a[1], b and b[1],
                                                                   c and c[1]))
        print('HARNESS-ERROR determinism: %d of %d runs diverge' % (len(bad), len(h1)))
        return core.EXIT_HARNESS
    print('determinism: %d runs x 3 passes agree (plans and traces), %.0fs' % (len(h1), time.time() - t0))
    return core.EXIT_OK
