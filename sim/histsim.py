"""
histsim -- operation-and-fault histories over several long-lived clients sharing the
process-global table cache (C13, C08).

plan = {'engine':'histsim','family':'c13'|'c13-io'|'c08','seed':n,'limit':k,
        'clients':[{'compiled':None|0|1|2|8,'root':'bundled'|'alias'}],
        'msgs':[{'ref','hex','json','cls','qs':[query exprs]}],
        'ops':[{'op':..., ...}]}
Every compared operation has a *reference*: the same operation executed alone (after the decode it
needs) in a pristine forked process -- `ref_plan` builds that mini history, `execute` runs both.
"""
import errno
import hashlib
import io
import json
import os
import random
import shutil
import tempfile

from sim import bufrgen, core, streamsim

ALIAS_OMITS = ('14', '22', '30')
FORMATS = ('flat_text', 'nested_text', 'flat_json', 'nested_json')


def _h(x):
    if not isinstance(x, bytes):
        x = x.encode('utf-8', 'backslashreplace')
    return hashlib.sha1(x).hexdigest()[:16]


# ----------------------------------------------------------------------------
# executor
class IoSeam(object):
    """pass-through replacement for the `open` used by pybufrkit.tables; can fail the n-th open"""

    def __init__(self):
        self.armed = None      # {'kind':..., 'nth': k}
        self.count = 0
        self.fired = 0
        self.opens = 0

    def open(self, path, *a, **kw):
        self.opens += 1
        if self.armed is not None:
            self.count += 1
            if self.count >= self.armed['nth']:
                kind = self.armed['kind']
                self.armed = None
                self.fired += 1
                if kind == 'eio':
                    raise OSError(errno.EIO, 'Input/output error (injected)', path)
                if kind == 'emfile':
                    raise OSError(errno.EMFILE, 'Too many open files (injected)', path)
                if kind == 'enoent':
                    raise IOError(errno.ENOENT, 'No such file or directory (injected)', path)
                with open(path, *a, **kw) as f:
                    data = f.read()
                return io.StringIO(data[:max(1, len(data) // 3)])   # short read
        return open(path, *a, **kw)


def _norm_text(t):
    """the first line of a text rendering shows the table group key; normalise its root directory"""
    lines = t.split('\n')
    if lines and lines[0].startswith('TableGroupKey('):
        i = lines[0].find("tables_root_dir='")
        j = lines[0].find("'", i + len("tables_root_dir='"))
        if i >= 0 and j >= 0:
            lines[0] = lines[0][:i] + "tables_root_dir='<root>" + lines[0][j:]
    return '\n'.join(lines)


_RENDERERS = {}


def _render(m, fmt):
    """one renderer object per format for the whole history (a process-lifetime in the forked child): what a
    renderer keeps from one message must not show in the next. The reference renders in a process of its own."""
    from pybufrkit.renderer import FlatTextRenderer, NestedTextRenderer, FlatJsonRenderer, NestedJsonRenderer
    from pybufrkit.utils import JSON_DUMPS_KWARGS
    if not _RENDERERS:
        _RENDERERS.update({'flat_text': FlatTextRenderer(), 'nested_text': NestedTextRenderer(),
                           'flat_json': FlatJsonRenderer(), 'nested_json': NestedJsonRenderer()})
    if fmt == 'flat_text':
        return _h(_norm_text(_RENDERERS[fmt].render(m)))
    if fmt == 'nested_text':
        return _h(_norm_text(_RENDERERS[fmt].render(m)))
    if fmt == 'flat_json':
        return _h(json.dumps(_RENDERERS[fmt].render(m), sort_keys=True, **JSON_DUMPS_KWARGS))
    return _h(json.dumps(_RENDERERS['nested_json'].render(m), sort_keys=True, **JSON_DUMPS_KWARGS))


def _digest(m, full=True):
    from sim.observe import digest_message, section_params
    d = digest_message(m, full)
    d['p'] = _h(json.dumps(section_params(m, 5)))
    return d


class World(object):
    def __init__(self, plan):
        import pybufrkit.tables as T
        from pybufrkit.constants import DEFAULT_TABLES_DIR
        self.T = T
        self.plan = plan
        self.io = IoSeam()
        T.open = self.io.open
        T.MAXIMUM_NUMBER_OF_CACHED_TABLE_GROUPS = plan.get('limit', 50)
        self.tmp = tempfile.mkdtemp(prefix='verif-hist-')
        # the alias root is a second, *partial* tables root: every bundled directory is reachable through
        # symlinks except a few master table versions, for which the library's fallback to its default
        # version applies (so the two roots are not interchangeable)
        self.roots = {'bundled': None, 'alias': os.path.join(self.tmp, 'tables')}
        for mt in sorted(os.listdir(DEFAULT_TABLES_DIR)):
            os.makedirs(os.path.join(self.roots['alias'], mt))
            for centres in sorted(os.listdir(os.path.join(DEFAULT_TABLES_DIR, mt))):
                src = os.path.join(DEFAULT_TABLES_DIR, mt, centres)
                if centres != '0_0':
                    os.symlink(src, os.path.join(self.roots['alias'], mt, centres))
                    continue
                os.makedirs(os.path.join(self.roots['alias'], mt, centres))
                for v in sorted(os.listdir(src)):
                    if v not in ALIAS_OMITS:
                        os.symlink(os.path.join(src, v), os.path.join(self.roots['alias'], mt, centres, v))
        self.clients = [self.make_client(c) for c in plan['clients']]
        self.handles = {}
        self.disk = {}
        self.querent = None
        self.probes = {'evictions': 0, 'compiled_evictions': 0, 'io_fired': 0, 'failed_ops': 0, 'restarts': 0,
                       'max_groups': 0, 'loaded_templates': 0, 'saved_templates': 0}

    def make_client(self, cfg):
        from pybufrkit.decoder import Decoder
        from pybufrkit.encoder import Encoder
        root = self.roots[cfg.get('root', 'bundled')]
        return {'cfg': cfg,
                'dec': Decoder(tables_root_dir=root, compiled_template_cache_max=cfg.get('compiled')),
                'enc': Encoder(tables_root_dir=root, compiled_template_cache_max=cfg.get('compiled'),
                               ignore_declared_length=cfg.get('idl', True)),
                'loaded': False}

    def close(self):
        shutil.rmtree(self.tmp, ignore_errors=True)

    def groups(self):
        return self.T.TableGroupCacheManager._TABLE_GROUP_CACHE._groups

    def compiled_keys(self):
        ks = set()
        for ci, c in enumerate(self.clients):
            for k in ('dec', 'enc'):
                mgr = c[k].compiled_template_manager
                if mgr is not None:
                    ks.update((ci, k, repr(key)) for key in mgr.cache)
        return ks

    def compiled_sizes(self):
        n = 0
        for c in self.clients:
            for k in ('dec', 'enc'):
                mgr = c[k].compiled_template_manager
                if mgr is not None:
                    n += len(mgr.cache)
        return n

    # -- operations -------------------------------------------------------
    def do(self, i, op):
        from pybufrkit.decoder import Decoder  # noqa: F401
        k = op['op']
        msgs = self.plan['msgs']
        if k == 'decode':
            raw = bytes.fromhex(msgs[op['m']]['hex'])
            m = self.clients[op['c']]['dec'].process(
                raw, wire_template_data=op.get('wire', True),
                ignore_value_expectation=op.get('ive', False))
            self.handles[i] = m
            return _digest(m)
        if k == 'decode_info':
            raw = bytes.fromhex(msgs[op['m']]['hex'])
            m = self.clients[op['c']]['dec'].process(raw, info_only=True,
                                                     ignore_value_expectation=op.get('ive', False))
            return _digest(m, False)
        if k == 'decode_bad':
            raw = bufrgen.apply_fault(bytes.fromhex(msgs[op['m']]['hex']), op['fault'])
            m = self.clients[op['c']]['dec'].process(raw, ignore_value_expectation=op.get('ive', False),
                                                     wire_template_data=op.get('wire', True))
            return _digest(m)
        if k in ('render', 'query', 'mdquery', 'script', 'wire', 'subset_encode'):
            m = self.handles.get(op['h'])
            if m is None:
                return 'no-handle'
        if k == 'render':
            return _render(m, op['fmt'])
        if k == 'wire':
            m.wire()
            m.wire()
            return _render(m, 'nested_json')
        if k == 'query':
            from pybufrkit.dataquery import NodePathParser, DataQuerent
            from sim.observe import canon
            if self.querent is None:
                self.querent = DataQuerent(NodePathParser())     # one parser object for the whole history
            qr = self.querent.query(m, op['expr'])
            return _h(canon([list(qr.subset_indices()), qr.all_values()]))
        if k == 'mdquery':
            from pybufrkit.mdquery import MetadataExprParser, MetadataQuerent
            from sim.observe import canon
            return canon(MetadataQuerent(MetadataExprParser()).query(m, op['expr']))
        if k == 'script':
            from pybufrkit.script import ScriptRunner
            from sim.observe import canon
            v = ScriptRunner(op['text']).run(m)
            return _h(canon(sorted((a, b) for a, b in v.items() if a.islower() and not a.startswith('_'))))
        if k == 'encode':
            m = self.clients[op['c']]['enc'].process(msgs[op['m']]['json'], wire_template_data=op.get('wire', False))
            return {'b': _h(bytes(m.serialized_bytes)), 'n': len(m.serialized_bytes)}
        if k == 'encode_bad':
            data = json.loads(msgs[op['m']]['json'])
            if op['how'] == 'arity':
                data[1] = data[1][:-1]
            elif op['how'] == 'range':
                data[0][1] = 0
                data[-2][-1] = [[2 ** 70] * max(1, len(x)) for x in data[-2][-1]] or [[2 ** 70]]
            else:
                data = data[:2]
            m = self.clients[op['c']]['enc'].process(data, wire_template_data=False)
            return {'b': _h(bytes(m.serialized_bytes))}
        if k == 'subset_encode':
            data = m.subset(op['idx'])
            nb = self.clients[op['c']]['enc'].process(data, wire_template_data=False)
            return {'b': _h(bytes(nb.serialized_bytes)), 'src': _render(m, 'flat_json')}
        if k == 'cli':
            # the command line front end in-process on an in-memory file system: it builds its own
            # decoders/encoders but shares the process-global table cache with every client
            msg = msgs[op['m']]
            files = {'m.bufr': bytes.fromhex(msg['hex']), 'm.json': msg['json'].encode('utf-8')}
            r = streamsim.run_cli(op['argv'], files)
            out = '\n'.join(_norm_text(x) for x in r['stdout'].split('\n\n'))
            return {'o': _h(out), 'n': len(out), 'e': _h(r['stderr']), 'w': r['written'],
                    'x': (r['exc'] or {}).get('type')}
        if k == 'scan':
            # a client's decoder scans a small stream (some messages damaged) - the scanner's skip and
            # continue logic, failed decodes and metadata-only re-reads become part of the history
            from pybufrkit.decoder import generate_bufr_message
            from sim.observe import exc_info
            parts = []
            for mi, f, sep in zip(op['ms'], op['faults'], op['seps']):
                raw = bytes.fromhex(msgs[mi]['hex'])
                parts.append(bytes.fromhex(sep))
                parts.append(bufrgen.apply_fault(raw, f) if f else raw)
            out, x = [], None
            try:
                for m in generate_bufr_message(self.clients[op['c']]['dec'], b''.join(parts),
                                               info_only=(op['mode'] == 'info'), continue_on_error=op['coe']):
                    out.append(_digest(m, op['mode'] == 'full'))
            except Exception as e:
                x = exc_info(e)['type']
                self.probes['failed_ops'] += 1
            return {'d': _h(json.dumps(out, sort_keys=True)), 'n': len(out), 'x': x}
        if k == 'lookup':
            g = self.T.TableGroupCacheManager.get_table_group(
                tables_root_dir=self.roots[op.get('root', 'bundled')], master_table_version=op['version'])
            return 'ok:%s' % (g.key.wmo_tables_sn[2],)
        if k == 'arm_io':
            self.io.armed = {'kind': op['kind'], 'nth': op['nth']}
            self.io.count = 0
            return 'armed'
        if k == 'invalidate':
            self.T.TableGroupCacheManager.invalidate()
            return 'ok'
        if k == 'restart':
            c = self.clients[op['c']]
            self.clients[op['c']] = self.make_client(c['cfg'])
            self.probes['restarts'] += 1
            return 'ok'
        if k == 'save_compiled':
            c = self.clients[op['c']]
            n = 0
            for which in ('dec', 'enc'):
                mgr = c[which].compiled_template_manager
                if mgr is None:
                    continue
                for key, ct in list(mgr.cache.items()):
                    # the JSON text is what is "on disk"; the cache key travels with it as plain data so
                    # that the harness never has to know how the manager builds its keys
                    self.disk[(op['c'], which, n)] = (key, json.dumps(ct.to_dict()))
                    n += 1
            self.probes['saved_templates'] += n
            return 'saved:%d' % n
        if k == 'load_compiled':
            from pybufrkit.templatecompiler import loads_compiled_template
            c = self.clients[op['c']]
            n = 0
            for (cc, which, _j), (key, text) in sorted(self.disk.items(), key=lambda kv: kv[0]):
                if cc != op['c']:
                    continue
                mgr = c[which].compiled_template_manager
                if mgr is None or mgr.cache_max <= 0:
                    continue
                ct = loads_compiled_template(text)
                if len(mgr.cache) >= mgr.cache_max:
                    mgr.cache.popitem()
                mgr.cache[key] = ct
                n += 1
            if n:
                c['loaded'] = True
            self.probes['loaded_templates'] += n
            return 'loaded:%d' % n
        raise ValueError(k)


def execute(plan):
    from sim.observe import exc_info, quiet_std, install_step_budget, reset_step_budget
    quiet_std()
    install_step_budget()
    w = World(plan)
    events = []
    try:
        for i, op in enumerate(plan['ops']):
            g0 = set(w.groups().keys())
            c0 = w.compiled_sizes()
            k0 = w.compiled_keys()
            f0 = w.io.fired
            ev = {'i': i}
            reset_step_budget()          # the budget is per operation
            try:
                ev['r'] = w.do(i, op)
            except core.StepBudgetExceeded:
                ev['r'] = 'step-budget-exceeded'
                w.probes['budget_exceeded_ops'] = w.probes.get('budget_exceeded_ops', 0) + 1
            except Exception as e:
                x = exc_info(e)
                x['msg'] = x['msg'].replace(w.tmp, '<tmp>')      # traces must not depend on scratch paths
                ev['r'] = 'raise:%s' % x['type']
                ev['exc'] = x
                w.probes['failed_ops'] += 1
            g1 = set(w.groups().keys())
            if g0 - g1 and op['op'] != 'invalidate':
                w.probes['evictions'] += len(g0 - g1)
                ev['evict'] = len(g0 - g1)
            if w.io.fired > f0:
                ev['io'] = True
                w.probes['io_fired'] += 1
            w.probes['max_groups'] = max(w.probes['max_groups'], len(g1))
            c1 = w.compiled_sizes()
            if op['op'] not in ('restart', 'load_compiled'):
                gone = len(k0 - w.compiled_keys())
                if gone:
                    w.probes['compiled_evictions'] += gone
                    ev['cevict'] = gone
            ev['st'] = [len(g1), c1]
            if 'c' in op and op['op'] in ('decode', 'encode', 'decode_bad', 'subset_encode', 'scan'):
                cl = w.clients[op['c']]
                ev['loaded'] = cl['loaded']
                mx = cl['cfg'].get('compiled')
                if mx is not None and mx > 0 and c1 <= c0 and c0 > 0 and op['op'] in ('decode', 'encode'):
                    pass
            events.append(ev)
        # compiled evictions: count via cache sizes at capacity is awkward; report final occupancy
        w.probes['compiled_cached_final'] = w.compiled_sizes()
    finally:
        w.close()
    return {'events': events, 'probes': w.probes, 'opens': w.io.opens}


core.register('histsim', execute)


# ----------------------------------------------------------------------------
# references
COMPARED = ('decode', 'decode_info', 'decode_bad', 'render', 'query', 'mdquery', 'script', 'wire', 'encode',
            'encode_bad', 'subset_encode', 'cli', 'scan')


def ref_spec(plan, i, compiled_override=None):
    """-> (key, mini plan) for compared op i of plan, or None. The mini plan is the operation alone
    (after the decode its handle needs) for a single fresh client."""
    op = plan['ops'][i]
    k = op['op']
    if k not in COMPARED:
        return None
    chain = []
    # the reference repeats the compile mode of each role: client 0 decodes, client 1 encodes
    clients = plan['clients']
    eidl = clients[op['c']].get('idl', True) if ('c' in op and k in ('encode', 'encode_bad', 'subset_encode')) else True
    if 'h' in op:
        dop = plan['ops'][op['h']]
        dcomp = clients[dop['c']].get('compiled') is not None
        ecomp = clients[op['c']].get('compiled') is not None if 'c' in op else False
        droot = clients[dop['c']].get('root', 'bundled')
        eroot = clients[op['c']].get('root', 'bundled') if 'c' in op else 'bundled'
        # m.wire() is an explicit, documented mutation: a handle wired by an earlier `wire` op is the
        # same thing as a handle decoded with wiring on
        wired = dop.get('wire', True) or any(o['op'] == 'wire' and o.get('h') == op['h'] for o in plan['ops'][:i])
        if plan['msgs'][dop['m']].get('soft'):
            # a message that cannot be wired: every earlier attempt failed and - the object being what it was
            # before - this operation must end like the same operation on a freshly (unwired) decoded message
            wired = False
        chain.append({'op': 'decode', 'c': 0, 'm': 0, 'wire': wired, 'ive': dop.get('ive', False)})
        mi = dop['m']
        o2 = dict(op)
        o2['h'] = 0
        if 'c' in o2:
            o2['c'] = 1
        chain.append(o2)
    elif k == 'scan':
        o2 = dict(op)
        o2['ms'] = list(range(len(op['ms'])))
        o2['c'] = 0
        dcomp, ecomp = clients[op['c']].get('compiled') is not None, False
        droot, eroot = clients[op['c']].get('root', 'bundled'), 'bundled'
        chain.append(o2)
        if compiled_override is not None:
            dcomp = dcomp and compiled_override
        ms = [plan['msgs'][i] for i in op['ms']]
        key = _h(json.dumps([[m['ref'] for m in ms], [_h(m['hex']) for m in ms], dcomp, ecomp, droot, eroot,
                             [dict((a, b) for a, b in c.items() if a not in ('c', 'ms')) for c in chain]],
                            sort_keys=True))
        mini = {'engine': 'histsim', 'family': 'ref', 'seed': 0, 'limit': 50,
                'clients': [{'compiled': 8 if dcomp else None, 'root': droot}, {'compiled': None, 'root': eroot}],
                'msgs': ms, 'ops': chain}
        return key, mini
    else:
        mi = op['m']
        o2 = dict(op)
        o2['m'] = 0
        if k == 'cli':
            dcomp = ecomp = False
            droot = eroot = 'bundled'
        elif k in ('encode', 'encode_bad'):
            dcomp, ecomp = False, clients[op['c']].get('compiled') is not None
            droot, eroot = 'bundled', clients[op['c']].get('root', 'bundled')
            o2['c'] = 1
        else:
            dcomp, ecomp = clients[op['c']].get('compiled') is not None, False
            droot, eroot = clients[op['c']].get('root', 'bundled'), 'bundled'
            o2['c'] = 0
        chain.append(o2)
    if compiled_override is not None:
        dcomp = dcomp and compiled_override
        ecomp = ecomp and compiled_override
    msg = plan['msgs'][mi]
    key = _h(json.dumps([msg['ref'], _h(msg['hex']), dcomp, ecomp, droot, eroot, eidl,
                         [dict((a, b) for a, b in c.items() if a not in ('c', 'm', 'h')) for c in chain]],
                        sort_keys=True))
    mini = {'engine': 'histsim', 'family': 'ref', 'seed': 0, 'limit': 50,
            'clients': [{'compiled': 8 if dcomp else None, 'root': droot},
                        {'compiled': 8 if ecomp else None, 'root': eroot, 'idl': eidl}],
            'msgs': [msg], 'ops': chain}
    return key, mini


class RefStore(object):
    def __init__(self):
        self.memo = {}
        self.computed = 0

    def need(self, specs):
        todo = {}
        for key, mini in specs:
            if key not in self.memo and key not in todo:
                todo[key] = mini
        if not todo:
            return
        keys = sorted(todo)
        res = core.pmap('histsim', [todo[k] for k in keys], limit=600)
        for k, (st, tr) in zip(keys, res):
            if st != 'ok':
                raise core.HarnessError('reference computation failed: %s' % tr)
            self.memo[k] = tr['events'][-1]['r']
            self.computed += 1

    def get(self, key):
        return self.memo[key]


# ----------------------------------------------------------------------------
# plan generation
BAD_QUERIES = ['', '/', '>>', 'abc', '/001001[', '@[x]/001001', '001001]', '@@', '/001001//']
MD_QUERIES = ['%length', '%n_subsets', '%3.section_length', '%2.section_length', 'edition', '%x.y', '%9.length']


SLICE_JUNK = ['[1:x]', '[:::]', '[2:x', '[1:2:3:4]', '[1,2]', '[-1:', '[x]', '[1:2]x', '[0:3:]', '[::0]', '[ 1 : 2 ]',
              '[1:-]', '[--1]', '[1:2:3]', '[:]', '[9999]']


def mutate_query(rng, q):
    """a query expression damaged at a seeded place: most are rejected, at different depths of the
    parser (inside an id, inside a slice, after a separator); some stay well-formed. Either way the
    answer must be that of a fresh querent."""
    r = rng.random()
    if r < 0.35:
        # slice junk after an id or after the subset marker
        import re
        ends = [m.end() for m in re.finditer(r'\d{6}', q)]
        cut = rng.choice(ends) if (ends and rng.random() < 0.8) else rng.randrange(0, len(q) + 1)
        return (q[:cut] + rng.choice(SLICE_JUNK) + (q[cut:] if rng.random() < 0.5 else '')) if rng.random() < 0.7 \
            else '@' + rng.choice(SLICE_JUNK) + ' > ' + q.lstrip('@/>')
    if r < 0.6:
        return q[:rng.randrange(0, len(q) + 1)]                       # cut short
    if r < 0.85:
        i = rng.randrange(0, len(q) + 1)
        return q[:i] + rng.choice('x:[]@/.> -,') + q[i:]              # one character inserted
    i = rng.randrange(0, max(1, len(q)))
    return q[:i] + q[i + 1:]                                          # one character dropped


def gen_queries(rng, entry):
    w = bufrgen.walk(bytes.fromhex(entry['hex']))
    els = [i for i in w['ids'] if i < 100000][:6]
    seqs = [i for i in w['ids'] if i >= 300000][:3]
    qs = []
    for e in els[:3]:
        qs.append('%06d' % e)
        qs.append('@[0] > %06d[0]' % e)
    for s in seqs[:2]:
        qs.append('/%06d' % s)
        qs.append('%06d > 001001' % s)
    if els:
        qs.append('@[::2]>%06d[::-1]' % els[0])
        qs.append('/%06d.A%05d' % (els[0], els[0]))
    qs.append('>031001')
    return qs[:8]


def gen_cli_argv(rng, msg):
    w = bufrgen.walk(bytes.fromhex(msg['hex']))
    ids = ','.join('%06d' % i for i in w['ids'][:6]) or '001001'
    q = rng.choice(msg['qs']) if msg['qs'] else '001001'
    ver = ['--master-table-version', str(w['version'])]
    return rng.choice([
        ['decode', 'm.bufr'], ['decode', '-j', 'm.bufr'], ['decode', '-a', 'm.bufr'], ['decode', '-a', '-j', 'm.bufr'],
        ['decode', '--compiled-template-cache-max', '2', 'm.bufr'], ['decode', '-m', 'm.bufr'],
        ['info', 'm.bufr'], ['info', '-t', 'm.bufr'], ['info', '-c', 'm.bufr'],
        ['lookup'] + ver + [ids], ['lookup', '-l'] + ver + [ids.split(',')[0]],
        ['compile'] + ver + [ids],
        ['query', q, 'm.bufr'], ['query', '-j', q, 'm.bufr'], ['query', '%n_subsets', 'm.bufr'],
        ['script', 'a = ${%s}\nprint(a)' % q, 'm.bufr'],
        ['subset', '0', 'm.bufr', 'out.bufr'], ['split', 'm.bufr'],
        ['encode', '-j', 'm.json', 'out.bufr'], ['encode', '-j', '--compiled-template-cache-max', '1', 'm.json', 'out.bufr'],
    ])


REJECTED = []


def set_rejected(rejected):
    """pool messages the library rejects when it decodes them alone (a pristine process said so) are not
    thrown away: a failing decode is a legitimate element of a history ("failed decodes" in C13's words), and
    its outcome must be the same failure after any history"""
    del REJECTED[:]
    keep = [r for r in rejected if r.get('src') in ('operator', 'synth') and len(r['hex']) // 2 <= 6000 and
            bytes.fromhex(r['hex']).find(b'BUFR', 1) < 0]
    # 'soft' rejections: the lone decode fails only because the hierarchical structure cannot be built
    # (wiring) - e.g. marker operators while an associated field is in force. Decoded WITHOUT wiring (what the
    # command line does by default) they are ordinary messages with values, labels and a flat rendering, and
    # they can be encoded: they take part in the histories and in c08-each through unwired decodes
    res = core.pmap('hist_json', [{'hex': r['hex']} for r in keep], limit=120) if keep else []
    for r, (st, j) in zip(keep, res):
        ent = {'ref': r['ref'], 'hex': r['hex'], 'cls': '?', 'json': '[]', 'qs': [], 'key': None,
               'marker': False, 'nsub': 0, 'twin': r.get('twin'), 'rej': True,
               'opkind': 'wide' if r['ref'].startswith('synop') and _is_wide(r['hex']) else None}
        if st == 'ok' and j is not None:
            ent.update({'json': j['json'], 'nsub': j['nsub'], 'key': j['key'], 'marker': j['marker'], 'soft': True,
                        'twin': r.get('twin'), 'qs': gen_queries(random.Random(int(_h(r['hex']), 16)), r)})
        REJECTED.append(ent)


def _is_wide(hx):
    w = bufrgen.walk(bytes.fromhex(hx))
    return bool(w) and any(201160 <= i <= 201255 for i in w['ids'])


def prepare_msgs(pool):
    """histsim needs the flat JSON text of every message: take it from a pristine child."""
    res = core.pmap('hist_json', [{'hex': e['hex']} for e in pool], limit=120)
    out = []
    for e, (st, r) in zip(pool, res):
        if st != 'ok':
            raise core.HarnessError('flat json reference failed for %s: %s' % (e['ref'], r))
        if r is None:
            continue
        m = {'ref': e['ref'], 'hex': e['hex'], 'cls': e['cls'], 'json': r['json'], 'nsub': r['nsub'],
             'key': r['key'], 'twin': e.get('twin'), 'marker': r['marker'], 'exhibit': e.get('exhibit'),
             'opkind': 'wide' if (e.get('opkind') or '').startswith('wide') else None}
        m['qs'] = gen_queries(random.Random(int(_h(e['hex']), 16)), e)
        out.append(m)
    return out


def _hist_json(arg):
    from pybufrkit.decoder import Decoder
    from pybufrkit.renderer import FlatJsonRenderer
    from pybufrkit.utils import JSON_DUMPS_KWARGS
    from sim.observe import quiet_std
    quiet_std()
    try:
        m = Decoder().process(bytes.fromhex(arg['hex']), wire_template_data=False)
        ids = m.unexpanded_descriptors.value
        return {'json': json.dumps(FlatJsonRenderer().render(m), **JSON_DUMPS_KWARGS), 'nsub': m.n_subsets.value,
                'key': repr(tuple(m.table_group_key[1:])),
                'marker': any(i in (223255, 224255, 225255, 232255) for i in ids) or
                any(str(d)[0] in 'TFDR' for ds in m.template_data.value.decoded_descriptors_all_subsets[:1] for d in ds)}
    except Exception:
        return None


core.register('hist_json', _hist_json)


def _gives_handle(msg, wire):
    """a decode of this message yields a message object the history can go on using: every admitted message, and a
    softly rejected one (decodable, not wireable) when it is decoded without wiring"""
    return (not msg.get('rej')) or (bool(msg.get('soft')) and not wire)


def gen_plan(family, seed, msgs, tier='quick', index=None):
    rng = random.Random(seed)
    if family == 'c08-each':
        # every program of the pool at least once: compile, execute cached, encode, save/load, execute
        m = msgs[(index if index is not None else rng.randrange(len(msgs))) % len(msgs)]
        cm = rng.choice([1, 2, 8])
        # the same program with other data contents (data twins: other replication factors, bitmap
        # arrangements, values; the compressed variant): executed through the template compiled for m
        # ... and the other kinds of twins: the same descriptor list under another table version / local table
        # (collision twins), the same top-level ids with other members inside a replication (nest twins), the
        # companions of a sequence: one compiling coder meets them one after the other while the first is cached
        sibs = [x for x in msgs if m.get('twin') and x.get('twin') == m['twin'] and x['ref'] != m['ref']]
        rng.shuffle(sibs)
        group = [m] + sibs[:3]

        def dec(k):
            return {'op': 'decode', 'c': 0, 'm': k, 'wire': not group[k].get('soft'), 'ive': False}
        ops = [dec(0)] + [dec(k) for k in range(1, len(group))] + [dec(0)]
        # a companion of the same twin group that NEITHER path can turn into a template (it fails inside the
        # shared Table D sequence), met twice before anything else: what the failed attempts leave behind in a
        # long-lived compiler must not be held against the good templates that hold the same sequence
        bad = [x for x in REJECTED if x.get('twin') and x.get('twin') == m.get('twin') and not x.get('soft')]
        if bad:
            group.append(dict(bad[0]))
            kb = len(group) - 1
            ops = [{'op': 'decode', 'c': 0, 'm': kb, 'wire': True, 'ive': False},
                   {'op': 'decode', 'c': 0, 'm': kb, 'wire': False, 'ive': False}] + ops
        ops += [{'op': 'encode', 'c': 0, 'm': k} for k in range(len(group))]
        ops += [{'op': 'save_compiled', 'c': 0}, {'op': 'restart', 'c': 0}, {'op': 'load_compiled', 'c': 0}]
        ops += [dec(k) for k in range(len(group) - 1, -1, -1)]
        last = len(ops) - 1
        ops += [{'op': 'encode', 'c': 0, 'm': 0},
                {'op': 'render', 'h': last, 'fmt': rng.choice(FORMATS)}]
        # what the command line does by default: a decode without wiring through the re-loaded template
        ops.append(dict(dec(0), wire=False))
        # a descriptor list that cannot be turned into a template, met twice in a row, then the good message
        # again: whatever the failed attempts left in the cache must not be run
        raw0 = bytes.fromhex(m['hex'])
        if raw0.find(b'BUFR', 1) < 0:
            f = streamsim.gen_stream_fault(rng, raw0, ['undef_el', 'undef_seq'])
            if f is not None:
                bad = {'op': 'decode_bad', 'c': 0, 'm': 0, 'fault': f, 'ive': False, 'wire': rng.random() < 0.5}
                ops += [bad, dict(bad), dec(0)]
        return {'engine': 'histsim', 'family': 'c08', 'sub': 'each', 'seed': seed, 'limit': 50,
                'clients': [{'compiled': cm, 'root': 'bundled'}], 'msgs': [dict(x) for x in group], 'ops': ops}
    io_family = family == 'c13-io'
    c08 = family == 'c08'
    nclients = rng.randint(2, 4)
    clients = []
    for _ in range(nclients):
        if c08:
            comp = rng.choice([0, 1, 1, 2, 2, 8, None])
        else:
            comp = rng.choice([None, None, 0, 1, 2, 8])
        clients.append({'compiled': comp, 'root': rng.choice(['bundled', 'bundled', 'alias'])})
        if rng.random() < 0.25:
            clients[-1]['idl'] = False      # this client's encoder honours the declared section lengths
    if c08 and all(c['compiled'] is None for c in clients):
        clients[0]['compiled'] = 1
    limit = rng.choice([1, 2, 3, 50])
    # message slice spanning more table groups than the limit
    nm = rng.randint(6, 16)
    by_key = {}
    for m in msgs:
        by_key.setdefault(m['key'], []).append(m)
    keys = sorted(by_key)
    rng.shuffle(keys)
    chosen = []
    twins = {}
    for m in msgs:
        if m.get('twin'):
            twins.setdefault(m['twin'], []).append(m)
    twin_groups = [twins[k] for k in sorted(twins) if len(twins[k]) >= 2]
    if twin_groups and (c08 or rng.random() < 0.6):
        for g in rng.sample(twin_groups, min(len(twin_groups), rng.randint(1, 2))):
            chosen.extend(g)
    if c08:
        mk = [m for m in msgs if m['marker']]
        if mk:
            chosen.extend(rng.sample(mk, min(len(mk), rng.randint(1, 2))))
    ki = 0
    while len(chosen) < nm and keys:
        chosen.append(rng.choice(by_key[keys[ki % len(keys)]]))
        ki += 1
    # messages that fail when decoded alone take part as failing decodes; fields wider than 64 bits
    # (201YYY with a large YYY) come several at a time, rejected or not
    if REJECTED and rng.random() < 0.35:
        chosen.extend(rng.sample(REJECTED, min(len(REJECTED), rng.randint(1, 2))))
    if rng.random() < 0.15:
        wide = [m for m in msgs if m.get('opkind') == 'wide'] + [m for m in REJECTED if m.get('opkind') == 'wide']
        if wide:
            chosen.extend(rng.sample(wide, min(len(wide), rng.randint(2, 4))))
    rng.shuffle(chosen)
    versions = bufrgen.table_versions()
    nops = rng.randint(5, 60 if tier == 'thorough' else 32)
    ops = []
    handles = []    # (op index, msg index, nsub, wire)
    p_fail = rng.choice([0.0, 0.05, 0.15])
    p_ive = rng.choice([0.0, 0.05, 0.3])       # lenient decodes (ignore_value_expectation)
    save_bias = 5 if c08 else 0
    weights = [('cli', 5), ('scan', 4), ('decode', 30), ('decode_info', 4), ('decode_bad', 100 * p_fail / 2), ('render', 14), ('query', 8),
               ('mdquery', 3), ('script', 3), ('wire', 3), ('encode', 10), ('encode_bad', 100 * p_fail / 4),
               ('subset_encode', 5), ('lookup', 6), ('restart', 2 + save_bias),
               ('invalidate', 1), ('again', 7)]
    if io_family:
        weights.append(('arm_io', 6))
    if c08:
        weights.extend([('save_compiled', 8), ('load_compiled', 8)])
    names = [w[0] for w in weights]
    wts = [w[1] for w in weights]
    block_at = rng.randint(0, nops - 1) if (limit == 50 and rng.random() < 0.35) else -1
    # the durability scenario of C08: use, save, restart, load, use again (same client, same message)
    durable = [ci for ci, c in enumerate(clients) if (c['compiled'] or 0) >= 1]
    save_at = rng.randint(0, nops - 1) if (c08 and durable and rng.random() < 0.6) else -1
    for step in range(nops):
        if step == save_at:
            c = rng.choice(durable)
            mk = [i for i, m in enumerate(chosen) if m['marker']]
            mi = rng.choice(mk) if (mk and rng.random() < 0.6) else rng.randrange(len(chosen))
            first = rng.choice(['decode', 'decode', 'encode'])
            again = rng.choice(['decode', 'decode', 'encode', first])
            blk = [{'op': first, 'c': c, 'm': mi}, {'op': 'save_compiled', 'c': c}]
            if rng.random() < 0.8:
                blk.append({'op': 'restart', 'c': c})
            blk += [{'op': 'load_compiled', 'c': c}, {'op': again, 'c': c, 'm': mi}]
            for o in blk:
                if o['op'] == 'decode':
                    o.update({'wire': True, 'ive': False})
                    if _gives_handle(chosen[o['m']], True):
                        handles.append((len(ops), o['m'], chosen[o['m']]['nsub'], True))
                ops.append(o)
        if step == block_at:
            # reach the real limit: more than 50 distinct keys through both roots
            extra = [{'op': 'lookup', 'version': v, 'root': r} for r in ('bundled', 'alias') for v in versions]
            rng.shuffle(extra)
            ops.extend(extra[:rng.randint(45, len(extra))])
        k = rng.choices(names, wts)[0]
        c = rng.randrange(nclients)
        mi = rng.randrange(len(chosen))
        if k == 'again':
            # the same operation once more, by the same client - right away or after whatever came in between:
            # a second meeting with a message (in particular one that FAILED the first time) must end like the first
            prev = [o for o in ops[-8:] if o['op'] in ('decode', 'decode_bad', 'decode_info', 'encode', 'encode_bad', 'scan')]
            if not prev:
                continue
            op = json.loads(json.dumps(prev[-1] if rng.random() < 0.6 else rng.choice(prev)))
            if op['op'] == 'decode' and _gives_handle(chosen[op['m']], op.get('wire', True)):
                handles.append((len(ops), op['m'], chosen[op['m']]['nsub'], op.get('wire', True)))
            ops.append(op)
            continue
        if k in ('render', 'query', 'mdquery', 'script', 'wire', 'subset_encode') and not handles:
            k = 'decode'
        if chosen[mi].get('rej') and (k in ('encode_bad', 'decode_bad', 'cli') or
                                      (k == 'encode' and not chosen[mi].get('soft'))):
            k = rng.choice(['decode', 'decode', 'decode_info'])
        if k == 'decode':
            op = {'op': 'decode', 'c': c, 'm': mi, 'wire': rng.random() < (0.4 if chosen[mi].get('soft') else 0.85),
                  'ive': rng.random() < p_ive}
            if _gives_handle(chosen[mi], op['wire']):
                handles.append((len(ops), mi, chosen[mi]['nsub'], op['wire']))
        elif k == 'cli':
            op = {'op': 'cli', 'm': mi, 'argv': gen_cli_argv(rng, chosen[mi])}
        elif k == 'scan':
            ms = [rng.randrange(len(chosen)) for _ in range(rng.randint(1, 3))]
            faults = []
            for x in ms:
                raw = bytes.fromhex(chosen[x]['hex'])
                f = None
                if rng.random() < 0.4 and raw.find(b'BUFR', 1) < 0:
                    # a compiling client is compared with the interpreted path (C08) only for damage that
                    # leaves the descriptor list intact
                    f = streamsim.gen_stream_fault(rng, raw, ['stopsig', 'len+', 'len-'] if c08 else
                                                   ['stopsig', 'undef_el', 'undef_seq', 'len-', 'len+'])
                    if f is not None and c08 and f['kind'] == 'len' and f['section'] != 4:
                        f = None
                faults.append(f)
            op = {'op': 'scan', 'c': c, 'ms': ms, 'faults': faults,
                  'seps': [streamsim.gen_separator(rng)[1].hex() if rng.random() < 0.3 else '' for _ in ms],
                  'mode': rng.choice(['full', 'full', 'info']), 'coe': rng.random() < 0.8}
        elif k == 'decode_info':
            op = {'op': 'decode_info', 'c': c, 'm': mi, 'ive': rng.random() < p_ive}
        elif k == 'decode_bad':
            raw = bytes.fromhex(chosen[mi]['hex'])
            if rng.random() < 0.4:
                fault = {'kind': 'trunc', 'cut': rng.randrange(1, len(raw))}
            else:
                fault = streamsim.gen_stream_fault(rng, raw, ['stopsig', 'undef_el', 'undef_seq', 'len-', 'len+'])
            if fault is None:
                continue
            op = {'op': 'decode_bad', 'c': c, 'm': mi, 'fault': fault, 'ive': rng.random() < max(p_ive, 0.15),
                  'wire': rng.random() < 0.5}
        elif k in ('render', 'query', 'mdquery', 'script', 'wire', 'subset_encode'):
            if not handles:
                continue
            h, hm, nsub, wired = rng.choice(handles[-6:])
            if k == 'render':
                op = {'op': 'render', 'h': h, 'fmt': rng.choice(FORMATS)}
            elif k == 'wire':
                op = {'op': 'wire', 'h': h}
            elif k == 'query':
                r = rng.random()
                if r < 0.6:
                    expr = rng.choice(chosen[hm]['qs'] + BAD_QUERIES[:3])
                elif r < 0.7:
                    expr = rng.choice(BAD_QUERIES)
                else:
                    expr = mutate_query(rng, rng.choice(chosen[hm]['qs']))
                op = {'op': 'query', 'h': h, 'expr': expr}
            elif k == 'mdquery':
                op = {'op': 'mdquery', 'h': h, 'expr': rng.choice(MD_QUERIES)}
            elif k == 'script':
                q = rng.choice(chosen[hm]['qs'])
                op = {'op': 'script', 'h': h,
                      'text': rng.choice(['a = ${%%n_subsets}\nb = ${%s}' % q,
                                          '#$ data_values_nest_level = 2\nb = ${%s}\nc = len(b)' % q,
                                          'a = ${%length} + ${%edition}'])}
            else:
                if nsub < 1:
                    continue
                idx = sorted(set(rng.randrange(nsub) for _ in range(rng.randint(1, 3))))
                op = {'op': 'subset_encode', 'h': h, 'c': c, 'idx': idx}
        elif k == 'encode':
            op = {'op': 'encode', 'c': c, 'm': mi}
        elif k == 'encode_bad':
            op = {'op': 'encode_bad', 'c': c, 'm': mi, 'how': rng.choice(['arity', 'range', 'short'])}
        elif k == 'lookup':
            op = {'op': 'lookup', 'version': rng.choice(versions), 'root': rng.choice(['bundled', 'alias'])}
        elif k == 'arm_io':
            op = {'op': 'arm_io', 'kind': rng.choice(['eio', 'emfile', 'short', 'enoent']), 'nth': rng.randint(1, 4)}
            if rng.random() < 0.7:
                # place the fault inside an operation that loads tables, then come back to the same
                # message: a failed load must not leave anything half-built behind
                ops.append(op)
                ops.append({'op': 'decode', 'c': c, 'm': mi, 'wire': True, 'ive': False})
                if not chosen[mi].get('rej'):
                    handles.append((len(ops) - 1, mi, chosen[mi]['nsub'], True))
                if rng.random() < 0.7:
                    c2 = c if rng.random() < 0.5 else rng.randrange(nclients)
                    ops.append({'op': 'decode', 'c': c2, 'm': mi, 'wire': True, 'ive': False})
                    if not chosen[mi].get('rej'):
                        handles.append((len(ops) - 1, mi, chosen[mi]['nsub'], True))
                continue
        elif k == 'restart':
            op = {'op': 'restart', 'c': c}
        elif k == 'invalidate':
            op = {'op': 'invalidate'}
        elif k == 'save_compiled':
            op = {'op': 'save_compiled', 'c': c}
        elif k == 'load_compiled':
            op = {'op': 'load_compiled', 'c': c}
        else:
            continue
        ops.append(op)
    return {'engine': 'histsim', 'family': family, 'seed': seed, 'limit': limit, 'clients': clients,
            'msgs': [dict((k, v) for k, v in m.items()) for m in chosen], 'ops': ops}


# ----------------------------------------------------------------------------
# oracle
def compared_ops(plan, tr):
    """indices of ops whose result is compared with a reference"""
    out = []
    for ev, op in zip(tr['events'], plan['ops']):
        if op['op'] not in COMPARED:
            continue
        if ev.get('io'):
            continue          # an injected I/O fault fired during this very operation
        if ev['r'] == 'no-handle':
            continue
        out.append(ev['i'])
    return out


def oracle_with(plan, tr, refs):
    fam = plan['family']
    out = []
    bad_handles = set()
    for i in compared_ops(plan, tr):
        op = plan['ops'][i]
        ev = tr['events'][i]
        if op.get('h') in bad_handles:
            continue          # the decode that produced this handle was already reported
        key, _mini = ref_spec(plan, i)
        exp = refs.get(key)
        got = ev['r']
        if got == 'step-budget-exceeded' or exp == 'step-budget-exceeded':
            continue          # inconclusive by construction (counted in the probes)
        comp = _client_compiled(plan, op)
        if fam in ('c13', 'c13-io'):
            if got != exp:
                out.append({'property': 'C13', 'clause': 'C13.' + op['op'], 'compiled': comp,
                            'got': _cls(got), 'exp': _cls(exp)})
                if op['op'] == 'decode':
                    bad_handles.add(i)
        if fam == 'c08' and comp and op['op'] in ('decode_bad', 'scan') and not _c08_domain(plan, op):
            # damage to the descriptor list: which error each path reports, and whether the compiler fails on
            # a descriptor the data never reach, is outside the property - but a compiling coder that DELIVERS
            # where the interpreting one refuses has run something that is not the template
            keyi, _ = ref_spec(plan, i, compiled_override=False)
            expi = refs.get(keyi)
            if expi is not None and expi != 'step-budget-exceeded' and op['op'] == 'decode_bad' and \
                    _cls(got) == 'result' and _cls(expi) != 'result':
                out.append({'property': 'C08', 'clause': 'C08.h', 'op': 'decode_bad-delivered', 'got': 'result',
                            'exp': _cls(expi), 'raise_site': None})
            continue
        if fam == 'c08' and comp and op['op'] in ('decode', 'encode', 'decode_bad', 'encode_bad', 'subset_encode',
                                                   'render', 'wire', 'query', 'scan') and _c08_domain(plan, op):
            keyi, _ = ref_spec(plan, i, compiled_override=False)
            expi = refs.get(keyi)
            if expi == 'step-budget-exceeded':
                continue
            if _undefined_under_fallback(plan, op, got, expi):
                continue
            if plan.get('sub') == 'admit' and _cls(got) != 'result' and _cls(expi) != 'result':
                continue          # an invalid message: both paths reject it (with whatever error)
            if got != expi:
                clause = 'C08.r' if _uses_loaded(plan, tr, i) else 'C08.h'
                out.append({'property': 'C08', 'clause': clause, 'op': op['op'],
                            'got': _cls(got), 'exp': _cls(expi),
                            'raise_site': (ev.get('exc') or {}).get('site')})
                ex = _exhibit_of(plan, op)
                if ex:
                    out[-1]['exhibit'] = ex
                if op['op'] == 'decode':
                    bad_handles.add(i)
    return out


def _undefined_under_fallback(plan, op, a, b):
    """C08 quantifies over templates that are defined. The alias tables root lacks three master table
    versions on purpose; a message of such a version falls back to another version there, in which a
    descriptor of its template may be undefined. The compiler then reports the unknown descriptor when it
    builds the template - even inside a replication that the data execute zero times - while the
    interpreter reports it only when (and if) it reaches it, or fails earlier on the misread data. Such a
    comparison is outside the domain. Without a fallback in effect an unknown-descriptor error on one side
    only is still a violation."""
    if 'raise:UnknownDescriptor' not in (a, b):
        return False
    import re
    pairs = []
    if 'h' in op:
        dop = plan['ops'][op['h']]
        pairs.append((dop['c'], dop['m']))
        if 'c' in op:
            pairs.append((op['c'], dop['m']))
    elif 'ms' in op:
        pairs.extend((op['c'], m) for m in op['ms'])
    elif 'c' in op and 'm' in op:
        pairs.append((op['c'], op['m']))
    for c, m in pairs:
        if plan['clients'][c].get('root') == 'alias':
            v = re.search(r"'0_0', '(\d+)'", plan['msgs'][m].get('key') or '')
            if v and v.group(1) in ALIAS_OMITS:
                return True
    return False


def _cls(r):
    """outcome class of a result: 'result' or 'raise:<Type>'"""
    if isinstance(r, str) and r.startswith('raise:'):
        return r
    return 'result'


def _exhibit_of(plan, op):
    """name of the exhibit (a hand-written input of a recorded, unrepaired defect) the operation works on"""
    ms = []
    if 'h' in op:
        ms.append(plan['ops'][op['h']]['m'])
    elif 'ms' in op:
        ms.extend(op['ms'])
    elif 'm' in op:
        ms.append(op['m'])
    for m in ms:
        if plan['msgs'][m].get('exhibit'):
            return plan['msgs'][m]['exhibit']
    return None


def _client_compiled(plan, op):
    cs = []
    if 'h' in op:
        cs.append(plan['ops'][op['h']]['c'])
    if 'c' in op:
        cs.append(op['c'])
    return any(plan['clients'][c].get('compiled') is not None for c in cs)


def _uses_loaded(plan, tr, i):
    op = plan['ops'][i]
    if tr['events'][i].get('loaded'):
        return True
    if 'h' in op:
        return bool(tr['events'][op['h']].get('loaded'))
    return False


def _c08_domain(plan, op):
    """C08 quantifies over well-formed templates: a failing decode is compared across the two paths
    only when the damage leaves the descriptor list intact (truncation inside / after the data
    section, stop signature, length of section 4)."""
    if op['op'] == 'scan':
        return all(f is None or f['kind'] == 'stopsig' or (f['kind'] == 'len' and f['section'] == 4)
                   for f in op['faults'])
    if op['op'] != 'decode_bad':
        return True
    f = op['fault']
    raw = bytes.fromhex(plan['msgs'][op['m']]['hex'])
    w = bufrgen.walk(raw)
    if f['kind'] == 'trunc':
        return f['cut'] >= w['sections'][4][0]
    if f['kind'] == 'stopsig':
        return True
    if f['kind'] == 'len':
        return f['section'] == 4
    return False


def specs_needed(plan, tr):
    out = []
    for i in compared_ops(plan, tr):
        out.append(ref_spec(plan, i))
        if plan['family'] == 'c08' and _client_compiled(plan, plan['ops'][i]) and \
                (_c08_domain(plan, plan['ops'][i]) or plan['ops'][i]['op'] == 'decode_bad'):
            out.append(ref_spec(plan, i, compiled_override=False))
    return out


# ----------------------------------------------------------------------------
def shape(plan, tr=None):
    if plan.get('sub') == 'admit':
        return ('c08-admit', plan['msgs'][0]['ref'])
    if plan.get('sub') == 'each':
        return ('c08-each', plan['msgs'][0]['ref'], plan['clients'][0]['compiled'])
    return (plan['family'], plan['limit'], tuple(c['compiled'] for c in plan['clients']),
            tuple(o['op'][:4] for o in plan['ops']))


def nontrivial(plan, tr):
    p = tr['probes']
    return bool(p['evictions'] or p['failed_ops'] or p['io_fired'] or p['restarts'] or p['loaded_templates'] or
                p.get('compiled_evictions'))


def abstract_states(plan, tr):
    """(groups cached, compiled cached, limit) after each op; transitions labelled by op kind"""
    st = set()
    trn = set()
    prev = (0, 0)
    for ev, op in zip(tr['events'], plan['ops']):
        cur = tuple(ev['st'])
        st.add((plan['limit'],) + cur)
        trn.add((plan['limit'], prev, op['op'], cur))
        prev = cur
    return st, trn


def valid(plan):
    for i, op in enumerate(plan['ops']):
        if 'h' in op:
            if not (0 <= op['h'] < i) or plan['ops'][op['h']]['op'] != 'decode':
                return False
        if 'm' in op and not (0 <= op['m'] < len(plan['msgs'])):
            return False
        if 'ms' in op and not all(0 <= x < len(plan['msgs']) for x in op['ms']):
            return False
        if 'c' in op and not (0 <= op['c'] < len(plan['clients'])):
            return False
    return True


def _drop_ops(plan, idxs):
    idxs = set(idxs)
    # dropping a decode drops every op that uses its handle
    changed = True
    while changed:
        changed = False
        for i, op in enumerate(plan['ops']):
            if i not in idxs and 'h' in op and op['h'] in idxs:
                idxs.add(i)
                changed = True
    remap = {}
    out = []
    for i, op in enumerate(plan['ops']):
        if i in idxs:
            continue
        remap[i] = len(out)
        out.append(dict(op))
    for op in out:
        if 'h' in op:
            op['h'] = remap[op['h']]
    p = json.loads(json.dumps(dict(plan, ops=out)))
    return p


def shrink_candidates(plan):
    n = len(plan['ops'])
    size = n // 2
    while size >= 1:
        for a in range(0, n, size):
            yield _drop_ops(plan, range(a, min(n, a + size)))
        if size == 1:
            break
        size //= 2
    if plan['limit'] != 50:
        yield dict(json.loads(json.dumps(plan)), limit=50)
    for ci, c in enumerate(plan['clients']):
        if c.get('root') != 'bundled':
            p = json.loads(json.dumps(plan))
            p['clients'][ci]['root'] = 'bundled'
            yield p
    # drop unused messages
    used = sorted(set(op['m'] for op in plan['ops'] if 'm' in op) |
                  set(x for op in plan['ops'] if 'ms' in op for x in op['ms']))
    if len(used) < len(plan['msgs']):
        p = json.loads(json.dumps(plan))
        remap = dict((m, i) for i, m in enumerate(used))
        p['msgs'] = [plan['msgs'][m] for m in used]
        for op in p['ops']:
            if 'm' in op:
                op['m'] = remap[op['m']]
            if 'ms' in op:
                op['ms'] = [remap[x] for x in op['ms']]
        yield p
    # shorten scanned streams
    for i, op in enumerate(plan['ops']):
        if op['op'] == 'scan' and len(op['ms']) > 1:
            for j in range(len(op['ms'])):
                p = json.loads(json.dumps(plan))
                for k in ('ms', 'faults', 'seps'):
                    del p['ops'][i][k][j]
                yield p


# ----------------------------------------------------------------------------
# glue for the generic runner
REFS = RefStore()


def prepare_pool(pool):
    # softly rejected messages (decodable without wiring) come last: c08-each gives each of them its history
    return prepare_msgs([e for e in pool if 'D' not in e['cls']]) + [dict(m) for m in REJECTED if m.get('soft')]


def before_oracle(runs):
    specs = []
    for plan, st, tr in runs:
        if st == 'ok':
            specs.extend(specs_needed(plan, tr))
    REFS.need(specs)


def oracle(plan, tr):
    REFS.need(specs_needed(plan, tr))
    return oracle_with(plan, tr, REFS.memo)
