"""
subsim -- C06: the subsets of one uncompressed message as a history applied to one coder state.

The library keeps ONE CoderState object for all subsets of a message and switches its "subset context"
between them; what survives that switch is hidden state exactly like what survives between two messages
(C13), only on a smaller scale. The simulated world:

  program P (descriptor list, tables)          the "alone" data contents a_0 .. a_k-1 of P: single-subset
  -----------------------------------          messages written by the independent writer (operator
  reference  = each a_i decoded ALONE in a     programs, C06-specific programs that end inside an operator
               pristine process: values,       construct, plain templates) or split out of corpus messages
               labels, links, hierarchical
               structure, and the exact number of data bits it consumed
  history    = an order i_1 .. i_n (repeats allowed) of those contents
  together   = ONE message holding the subsets a_i1 .. a_in - built by the independent writer by
               concatenating the consumed data bits (no library code), and a second time by the library's
               encoder from the alone value lists
  run        = one forked process: one Decoder object decodes the together messages of 2..3 orders (an order,
               a permutation of it, ...); one Encoder encodes them
  oracle     = position by position the together result equals the alone reference of that content; the
               encoder's data bits equal the concatenation of the alone data bits.

plan = {'engine':'subsim','family':'c06','seed':n,'kind':..., 'opkind':..., 'ref':...,
        'alone':[{'hex','nbits','dig':{v,l,k,n},'cdig':{..}|None,'vals':json text,'reenc':bool}],
        'json0': flat JSON text of alone[0] (header for the encoder), 'orders':[[i,..],..],
        'compiled': None|k, 'pad4': n}
"""
import json
import random

from sim import bufrgen, core, pool as poolmod

NEEDS_POOL = False


def _h(x):
    import hashlib
    if not isinstance(x, bytes):
        x = x.encode('utf-8', 'backslashreplace')
    return hashlib.sha1(x).hexdigest()[:16]


# ----------------------------------------------------------------------------
# pure bit helpers (no library code)
def data_payload(raw):
    """octets of section 4 after its 4-octet header, by the independent section walk"""
    w = bufrgen.walk(raw)
    if not w or 4 not in w['sections']:
        return None
    o, l = w['sections'][4]
    return raw[o + 4:o + l]


def take_bits(payload, nbits):
    """first nbits of payload as (int, nbits)"""
    need = (nbits + 7) // 8
    if need > len(payload):
        return None
    v = int.from_bytes(payload[:need], 'big') >> (need * 8 - nbits) if nbits else 0
    return v


def make_together(head_raw, parts, pad4=0):
    """head_raw: a single-subset message whose sections 0-3 are taken over (n_subsets patched);
    parts: [(value, nbits)] consumed data bits of the subsets in order. -> bytes"""
    w = bufrgen.walk(head_raw)
    o3, _l3 = w['sections'][3]
    o4, _l4 = w['sections'][4]
    head = bytearray(head_raw[:o4])
    head[o3 + 4:o3 + 6] = len(parts).to_bytes(2, 'big')
    acc, n = 0, 0
    for v, nb in parts:
        acc = (acc << nb) | v
        n += nb
    pad = (-n) % 8
    data = (acc << pad).to_bytes((n + pad) // 8, 'big') if n else b''
    s4 = b'\0' + data + b'\0' * pad4
    if w['edition'] <= 3 and (len(s4) + 3) % 2:
        s4 += b'\0'
    sec4 = (len(s4) + 3).to_bytes(3, 'big') + s4
    body = bytes(head[8:]) + sec4 + b'7777'
    total = 8 + len(body)
    return b'BUFR' + total.to_bytes(3, 'big') + bytes([w['edition']]) + body


# ----------------------------------------------------------------------------
# reference children (pristine process each)
def _subset_digest(m, i, nested):
    from sim.observe import canon
    td = m.template_data.value
    return {'v': _h(canon(td.decoded_values_all_subsets[i])),
            'l': _h(canon([str(d) for d in td.decoded_descriptors_all_subsets[i]])),
            'k': _h(canon(sorted(td.bitmap_links_all_subsets[i].items()))),
            'n': _h(json.dumps(nested[i], sort_keys=True)) if nested is not None else None,
            'c': len(td.decoded_values_all_subsets[i])}


def _nested_subsets(m):
    """the hierarchical (nested JSON) rendering of the template data: one entry per subset"""
    from pybufrkit.renderer import NestedJsonRenderer
    from pybufrkit.utils import JSON_DUMPS_KWARGS
    doc = NestedJsonRenderer().render(m)
    for sec in doc:
        for p in sec:
            if p['name'] == 'template_data':
                return json.loads(json.dumps(p['value'], **JSON_DUMPS_KWARGS))
    return None


def _measure_installed():
    """call-through wrapper around Decoder.process_template_data recording the bit positions before and
    after the data of the template are read (reference processes only; feeds the writer, never an oracle
    directly: if the wrapper cannot be installed the together messages are made by the encoder only)"""
    from pybufrkit.decoder import Decoder
    box = {}
    if not hasattr(Decoder, 'process_template_data'):
        return None
    inner = Decoder.process_template_data

    def process_template_data(self, bufr_message, bit_reader):
        a = bit_reader.get_pos()
        r = inner(self, bufr_message, bit_reader)
        box['a'], box['b'] = a, bit_reader.get_pos()
        return r
    Decoder.process_template_data = process_template_data
    return box


def _alone(arg):
    from pybufrkit.decoder import Decoder
    from pybufrkit.encoder import Encoder
    from pybufrkit.renderer import FlatJsonRenderer
    from pybufrkit.utils import JSON_DUMPS_KWARGS
    from sim.observe import quiet_std, install_step_budget
    quiet_std()
    install_step_budget()
    raw = bytes.fromhex(arg['hex'])
    out = {}
    try:
        box = _measure_installed()
    except Exception:
        box = None
    try:
        m = Decoder().process(raw, wire_template_data=False)
    except Exception:
        return None
    if m.n_subsets.value != 1 or m.is_compressed.value:
        return None
    wired = True
    try:
        m.wire()
        _nested_subsets(m)
    except Exception:
        # the content decodes, its hierarchical structure cannot be built: it still is a content - together
        # with others its values, labels and links must be the same, and the structure must fail as well
        wired = False
    w = bufrgen.walk(raw)
    nbits = None
    if box and 'a' in box and box['a'] == (w['sections'][4][0] + 4) * 8:
        nbits = box['b'] - box['a']
    out['nbits'] = nbits
    out['key'] = repr(tuple(m.table_group_key[1:]))
    out['dig'] = _subset_digest(m, 0, _nested_subsets(m) if wired else None)
    if not wired:
        out['dig']['n'] = 'raise'
    out['wired'] = wired
    fj = json.loads(json.dumps(FlatJsonRenderer().render(m), **JSON_DUMPS_KWARGS))
    out['vals'] = json.dumps(fj[-2][2][0])
    fj[-2][2] = []
    out['json0'] = json.dumps(fj)
    # does the library's encoder reproduce the consumed data bits of this content alone?
    out['reenc'] = False
    if nbits is not None:
        try:
            fj2 = json.loads(out['json0'])
            fj2[-2][2] = [json.loads(out['vals'])]
            eb = bytes(Encoder().process(json.dumps(fj2), wire_template_data=False).serialized_bytes)
            pe, pa = data_payload(eb), data_payload(raw)
            out['reenc'] = pe is not None and take_bits(pe, nbits) == take_bits(pa, nbits)
        except Exception:
            out['reenc'] = False
    try:
        mc = Decoder(compiled_template_cache_max=2).process(raw, wire_template_data=False)
        try:
            mc.wire()
            out['cdig'] = _subset_digest(mc, 0, _nested_subsets(mc))
        except Exception:
            out['cdig'] = _subset_digest(mc, 0, None)
            out['cdig']['n'] = 'raise'
    except Exception:
        out['cdig'] = None
    return out


core.register('sub_alone', _alone)


def _split(arg):
    """reference side of the corpus groups: the library's own subset() + encoder cut a multi-subset message
    into single-subset messages; build_pool keeps a group only if the pieces' consumed bits, concatenated,
    ARE the data bits of the original (conservation, checked without library code)"""
    from pybufrkit.decoder import Decoder
    from pybufrkit.encoder import Encoder
    from sim.observe import quiet_std
    quiet_std()
    raw = bytes.fromhex(arg['hex'])
    try:
        m = Decoder().process(raw, wire_template_data=False)
        n = m.n_subsets.value
        if m.is_compressed.value or n < 2 or n > 16:
            return None
        out = []
        for i in range(n):
            data = m.subset([i])
            out.append(bytes(Encoder().process(data, wire_template_data=False).serialized_bytes).hex())
        return out
    except Exception:
        return None


core.register('sub_split', _split)


# ----------------------------------------------------------------------------
# programs that end inside an operator construct, leave a bitmap open, cancel / re-define bitmaps
def gen_c06_spec(rng, rv, force_n=None):
    """`rng` decides the program, `rv` the data content (cf. pool.gen_operator_spec)."""
    versions = [v for v in bufrgen.table_versions() if v >= 13]
    version = rng.choice(versions)
    b, _d = bufrgen.load_tables(version)
    els = [e for e in poolmod._elements(version) if b[e][4] <= 64]
    nums = [e for e in els if b[e][1] != bufrgen.STRING_UNIT and 'able' not in b[e][1].lower() and 2 <= b[e][4] <= 32]
    strs = [e for e in poolmod._elements(version) if b[e][1] == bufrgen.STRING_UNIT and b[e][4] <= 160]
    low = [e for e in nums if 1 <= e // 1000 <= 9] or nums
    ids = []
    bits = poolmod.BitsOut()
    has_factor = False

    def plain(e):
        ids.append(e)
        bits.add(rv.getrandbits(b[e][4]), b[e][4])

    shape = rng.choice(['open-201', 'open-202', 'open-207', 'open-208', 'open-204', 'open-203', 'open-203-255',
                        'open-221', 'open-222', 'open-marker', 'open-marker', 'reuse-cancel', 'two-ops-no-235',
                        'open-236', 'meaning-204', 'meaning-224', 'meaning-225'])
    # a delayed replication in front: the layout before the construct differs from content to content
    if rng.random() < 0.45 and 31001 in b:
        e0 = rng.choice(nums)
        n = rv.choice([0, 1, 2, 3]) if force_n is None else force_n
        ids.extend([101000, 31001, e0])
        bits.add(n, b[31001][4])
        for _ in range(n):
            bits.add(rv.getrandbits(b[e0][4]), b[e0][4])
        has_factor = True
    k = rng.randint(1, 4)
    pre = [rng.choice(nums) for _ in range(k)]
    if shape == 'open-208' and strs:
        pre[rng.randrange(k)] = rng.choice(strs)
    for e in pre:
        plain(e)
    post = [rng.choice(nums) for _ in range(rng.randint(1, 3))]
    if shape == 'open-201':
        ids += [201000 + rng.choice([126, 127, 129, 130, 132])] + [rng.choice(pre + post) for _ in range(len(post))]
    elif shape == 'open-202':
        ids += [202000 + rng.choice([126, 127, 129, 130])] + [rng.choice(pre + post) for _ in range(len(post))]
    elif shape == 'open-207':
        ids += [207000 + rng.choice([1, 2, 3])] + [rng.choice(pre + post) for _ in range(len(post))]
    elif shape == 'open-208':
        ids += [208000 + rng.randint(1, 12)] + ([rng.choice(strs)] if strs else []) + post
    elif shape == 'open-204':
        ids += [204000 + rng.randint(1, 8)] + ([31021] if 31021 in b else []) + post
    elif shape == 'open-203':
        e1 = pre[0]
        ids += [203000 + rng.randint(6, 16), e1] + ([rng.choice(nums)] if rng.random() < 0.5 else [])
    elif shape == 'open-203-255':
        e1 = pre[0]
        ids += [203000 + rng.randint(6, 16), e1, 203255, e1] + post[:1]
    elif shape == 'open-221':
        ids += [rng.choice(low), 221000 + rng.randint(3, 9), rng.choice(low), rng.choice(nums)]
    elif shape == 'meaning-204' and 31021 in b and 31001 in b:
        # the element that gives the associated field its meaning stands under a delayed replication: a subset
        # that executes it zero times has no such element of its own - and must not inherit its predecessor's
        n = rv.choice([0, 1, 2, 3]) if force_n is None else force_n
        ids += [204000 + rng.randint(1, 8), 101000, 31001, 31021] + post + [204000]
        bits.add(n, b[31001][4])
        has_factor = True
    elif shape in ('meaning-224', 'meaning-225') and 31001 in b and (8023 if shape == 'meaning-224' else 8024) in b:
        op = 224000 if shape == 'meaning-224' else 225000
        nb = rng.randint(1, k)
        ids += [op] + ([236000] if rng.random() < 0.5 else []) + [101000 + nb, 31031]
        bitmap = [rng.choice([0, 0, 1]) for _ in range(nb)]
        if all(bitmap):
            bitmap[rng.randrange(nb)] = 0
        rv.shuffle(bitmap)
        for bit in bitmap:
            bits.add(bit, 1)
        n = rv.choice([0, 1, 2, 3]) if force_n is None else force_n
        ids += [101000, 31001, 8023 if op == 224000 else 8024] + [op + 255] * bitmap.count(0)
        bits.add(n, b[31001][4])
        has_factor = True
    else:
        op = 222000 if shape in ('open-222', 'two-ops-no-235') else rng.choice([222000, 223000, 224000, 225000, 232000])
        ids.append(op)
        if shape in ('reuse-cancel', 'open-236'):
            ids.append(236000)
        nb = rng.randint(1, k)
        ids += [101000 + nb, 31031]
        bitmap = [rng.choice([0, 0, 1]) for _ in range(nb)]
        if all(bitmap):
            bitmap[rng.randrange(nb)] = 0
        rv.shuffle(bitmap)
        for bit in bitmap:
            bits.add(bit, 1)
        z = bitmap.count(0)
        short = z - 1 if (shape in ('open-222', 'open-marker') and rng.random() < 0.7) else z

        def values_of(op_, count):
            if op_ == 222000:
                q = rng.choice([q for q in (33007, 33002, 33003) if q in b])
                return [q] * count
            sig = {224000: 8023, 225000: 8024}.get(op_)
            return ([sig] if sig and sig in b else []) + [op_ + 255] * count
        vals1 = values_of(op, max(0, short))
        ids += vals1
        if shape == 'two-ops-no-235':
            for x in vals1:
                bits.add(rv.getrandbits(b[x][4]), b[x][4])
        if shape == 'reuse-cancel':
            op2 = rng.choice([223000, 224000, 225000, 232000])
            ids += [op2, 237000] + values_of(op2, z)
            if rng.random() < 0.7:
                ids.append(237255)
            if rng.random() < 0.5:
                ids.append(rng.choice(nums))
        elif shape == 'two-ops-no-235':
            # a second operator with a bitmap of its own, no 235000 in between: the second bitmap refers
            # back to the same elements as the first (the first operator is 222000 here so that every width
            # up to the second bitmap is a table width and the second bitmap's bits can be placed)
            op2 = rng.choice([223000, 224000, 225000, 232000])
            nb2 = rng.randint(1, k)
            ids += [op2, 101000 + nb2, 31031]
            bm2 = [rng.choice([0, 0, 1]) for _ in range(nb2)]
            if all(bm2):
                bm2[rng.randrange(nb2)] = 0
            rv.shuffle(bm2)
            for bit in bm2:
                bits.add(bit, 1)
            ids += values_of(op2, bm2.count(0))
    data = bits.to_bytes() + bytes(rv.randrange(256) for _ in range(64 + 24 * len(ids)))
    return {'edition': rng.choice([3, 4, 4]), 'version': version, 'local_version': 0, 'centre': rng.choice([0, 7, 98]),
            'subcentre': 0, 'category': rng.choice([0, 2, 6, 12]), 'subcategory': 0, 'local_subcategory': 0,
            'update': 0, 'date': [2021, 2, 3, 4, 5, 6], 'sec2': None, 'pads': {}, 'compressed': False,
            'observed': True, 'raw_ids': ids, 'raw_data': data.hex(), 'nsub': 1, 'opkind': 'c06-' + shape,
            'has_factor': has_factor}


# ----------------------------------------------------------------------------
# the world: groups of alone contents per program, admitted and measured in pristine processes
SIZES = {'quick': {'operator': 70, 'c06prog': 110, 'plain': 40}, 'thorough': {'operator': 900, 'c06prog': 1400, 'plain': 500}}


def build_pool(seed, tier):
    rng = random.Random(core.derive_seed(seed, 'subsim', 'programs', 0))
    sizes = SIZES[tier]
    cands = []         # (group id, kind, opkind, hex)
    for i in range(sizes['operator']):
        ps = rng.getrandbits(48)
        spec0 = poolmod.gen_operator_spec(random.Random(ps))
        gid = 'op%d' % i
        for j in range(5):
            kw = {'force_n': j % 4} if spec0['has_factor'] else {}
            sp = poolmod.gen_operator_spec(random.Random(ps), rv=random.Random(ps * 31 + j + 1),
                                           perm=spec0['has_bitmap'], **kw)
            msg, _t = bufrgen.write_message(sp)
            cands.append((gid, 'operator', spec0['opkind'], msg.hex(), None))
    for i in range(sizes['c06prog']):
        ps = rng.getrandbits(48)
        spec0 = gen_c06_spec(random.Random(ps), random.Random(ps * 31))
        gid = 'cp%d' % i
        for j in range(5):
            kw = {'force_n': j % 4} if spec0['has_factor'] else {}
            sp = gen_c06_spec(random.Random(ps), random.Random(ps * 31 + j + 1), **kw)
            assert sp['raw_ids'] == spec0['raw_ids']
            msg, _t = bufrgen.write_message(sp)
            cands.append((gid, 'c06prog', spec0['opkind'], msg.hex(), None))
    for i in range(sizes['plain']):
        r2 = random.Random(rng.getrandbits(48))
        spec = poolmod.gen_spec(r2, force={'nsub': 1, 'compressed': False})
        spec['sec2'] = None
        b, d = bufrgen.load_tables(spec['version'])
        tree = bufrgen._expand(spec['template'], b, d)
        gid = 'pl%d' % i
        for j in range(4):
            sp = dict(spec, subsets=[poolmod.gen_raws(r2, tree)])
            msg, truth = bufrgen.write_message(sp)
            if len(msg) > poolmod.MAX_MSG or msg.find(b'BUFR', 1) >= 0:
                continue
            known = sum(truth['infos'][str(eid)][4] for (eid, _raw, _k) in truth['subsets'][0])
            cands.append((gid, 'plain', 'plain', msg.hex(), known))
    # corpus: uncompressed multi-subset messages cut into their subsets by the library (reference side)
    corpus = []
    for e in poolmod.corpus_messages(max_len=12000):
        w = bufrgen.walk(bytes.fromhex(e['hex']))
        if not w['compressed'] and 2 <= w['nsub'] <= 16 and w['category'] != 11:
            corpus.append(e)
    splits = core.pmap('sub_split', [{'hex': e['hex']} for e in corpus], limit=300)
    corpus_groups = {}
    for e, (st, r) in zip(corpus, splits):
        if st == 'ok' and r:
            gid = 'co:' + e['ref']
            corpus_groups[gid] = e
            for hx in r:
                cands.append((gid, 'corpus', 'corpus', hx, None))
    # corpus: real single-subset messages that share one template (same descriptor list, edition, table
    # versions) are the alone contents of that template
    bytmpl = {}
    for e in poolmod.corpus_messages():
        raw = bytes.fromhex(e['hex'])
        w = bufrgen.walk(raw)
        if w['compressed'] or w['nsub'] != 1 or w['category'] == 11 or raw.find(b'BUFR', 1) >= 0:
            continue
        bytmpl.setdefault((tuple(w['ids']), w['edition'], w['version'], w['local_version']), []).append(e)
    for ti, tk in enumerate(sorted(bytmpl)):
        es = bytmpl[tk]
        if len(es) < 2:
            continue
        pick = rng.sample(es, min(len(es), 6 if tier == 'quick' else 14))
        for e in pick:
            cands.append(('ct%d' % ti, 'corpus-template', 'corpus-template', e['hex'], None))
    res = core.pmap('sub_alone', [{'hex': c[3]} for c in cands], limit=300)
    groups = {}
    info = {'alone_candidates': len(cands), 'alone_rejected': 0, 'alone_without_bit_count': 0,
            'writer_and_measured_bit_counts_disagree': 0, 'corpus_groups_not_conserved': 0,
            'corpus_messages_split': len(corpus_groups)}
    for (gid, kind, opkind, hx, known), (st, r) in zip(cands, res):
        if st != 'ok':
            raise core.HarnessError('alone reference failed for %s: %s' % (gid, r))
        if not r:
            info['alone_rejected'] += 1
            if kind == 'corpus':
                groups.setdefault(gid, {'kind': kind, 'opkind': opkind, 'alone': [], 'bad': True})['bad'] = True
            continue
        if r['nbits'] is None:
            info['alone_without_bit_count'] += 1
        if known is not None and r['nbits'] is not None and known != r['nbits']:
            info['writer_and_measured_bit_counts_disagree'] += 1
            continue
        g = groups.setdefault(gid, {'kind': kind, 'opkind': opkind, 'alone': [], 'bad': False})
        if kind != 'corpus' and any(a['hex'] == hx for a in g['alone']):
            continue
        g['alone'].append({'hex': hx, 'nbits': r['nbits'], 'dig': r['dig'], 'cdig': r['cdig'], 'vals': r['vals'],
                           'reenc': r['reenc'], 'json0': r['json0'], 'key': r['key']})
    out = []
    for gid in sorted(groups):
        g = groups[gid]
        if g['bad'] or not g['alone']:
            continue
        if g['kind'] == 'corpus-template':
            # one table group per program: keep the contents that share the most frequent one
            keys = [a['key'] for a in g['alone']]
            best = max(sorted(set(keys)), key=keys.count)
            g['alone'] = [a for a in g['alone'] if a['key'] == best]
            if len(g['alone']) < 2:
                continue
        if g['kind'] == 'corpus':
            # conservation: the pieces' consumed bits, concatenated, are the original's data bits
            orig = bytes.fromhex(corpus_groups[gid]['hex'])
            parts = []
            for a in g['alone']:
                if a['nbits'] is None:
                    parts = None
                    break
                parts.append((take_bits(data_payload(bytes.fromhex(a['hex'])), a['nbits']), a['nbits']))
            ok = False
            if parts:
                total = sum(nb for _v, nb in parts)
                acc = 0
                for v, nb in parts:
                    acc = (acc << nb) | v
                ok = take_bits(data_payload(orig), total) == acc
            if not ok:
                info['corpus_groups_not_conserved'] += 1
                continue
            g['natural'] = True
        out.append({'gid': gid, 'kind': g['kind'], 'opkind': g['opkind'], 'alone': g['alone'],
                    'natural': bool(g.get('natural'))})
    info['groups'] = len(out)
    info['groups_by_kind'] = dict((k, sum(1 for g in out if g['kind'] == k)) for k in ('operator', 'c06prog', 'plain', 'corpus', 'corpus-template'))
    info['alone_contents'] = sum(len(g['alone']) for g in out)
    info['note'] = 'this engine writes its own programs (bufrgen + seeded data contents) and measures every content alone in a pristine process'
    info['pool_mismatch'] = []
    return out, info


# ----------------------------------------------------------------------------
def gen_plan(family, seed, groups, tier='quick', index=None):
    rng = random.Random(seed)
    if family == 'c06-each':
        g = groups[(index if index is not None else rng.randrange(len(groups))) % len(groups)]
        k = len(g['alone'])
        base = list(range(k)) if k > 1 else [0, 0]
        orders = [base, base[::-1]]
        if k > 2:
            orders.append(base[1:] + base[:1] + [base[0]])
        compiled = None
    else:
        g = rng.choice(groups)
        k = len(g['alone'])
        n = rng.randint(2, 6 if tier == 'quick' else 10)
        first = [rng.randrange(k) for _ in range(n)]
        if g['natural'] and rng.random() < 0.4:
            first = list(range(k))
        second = list(first)
        rng.shuffle(second)
        orders = [first, second]
        if rng.random() < 0.4:
            orders.append([rng.randrange(k) for _ in range(rng.randint(2, 4))])
        compiled = rng.choice([None, None, None, 2, 0, 1])
        if compiled is not None and any(a['cdig'] is None for a in g['alone']):
            compiled = None
    return {'engine': 'subsim', 'family': 'c06', 'sub': 'each' if family == 'c06-each' else 'random', 'seed': seed,
            'kind': g['kind'], 'opkind': g['opkind'], 'ref': g['gid'],
            'alone': [dict((a, b) for a, b in x.items() if a not in ('json0', 'key')) for x in g['alone']],
            'json0': g['alone'][0]['json0'], 'orders': orders, 'compiled': compiled,
            'pad4': rng.choice([0, 0, 0, 1, 2])}


def together_bytes(plan, order):
    """the writer's together message for one order, or None when a bit count is not known"""
    parts = []
    for i in order:
        a = plan['alone'][i]
        if a['nbits'] is None:
            return None
        parts.append((take_bits(data_payload(bytes.fromhex(a['hex'])), a['nbits']), a['nbits']))
    return make_together(bytes.fromhex(plan['alone'][order[0]]['hex']), parts, plan.get('pad4', 0))


def together_json(plan, order):
    fj = json.loads(plan['json0'])
    fj[0][1] = 0                                   # total length: to be computed
    for sec in fj[1:-1]:
        sec[0] = 0                                 # section lengths: to be computed
    fj[-3][2] = len(order)
    fj[-2][2] = [json.loads(plan['alone'][i]['vals']) for i in order]
    return json.dumps(fj)


def execute(plan):
    from pybufrkit.decoder import Decoder
    from pybufrkit.encoder import Encoder
    from sim.observe import exc_info, quiet_std, install_step_budget, reset_step_budget
    quiet_std()
    install_step_budget()
    dec = Decoder(compiled_template_cache_max=plan.get('compiled'))
    enc = Encoder()
    events = []

    def decode(raw, oi, via):
        ev = {'o': oi, 'via': via}
        reset_step_budget()
        try:
            m = dec.process(raw, wire_template_data=False)
            try:
                m.wire()
                nested = _nested_subsets(m)
            except Exception as e:
                nested = None
                ev['wire_exc'] = exc_info(e)['type']
            ev['r'] = [_subset_digest(m, i, nested) for i in range(m.n_subsets.value)]
            if nested is None:
                for r in ev['r']:
                    r['n'] = 'raise'
            ev['nb'] = len(m.serialized_bytes) == len(raw)
        except Exception as e:
            ev['exc'] = exc_info(e)
        events.append(ev)
    for oi, order in enumerate(plan['orders']):
        raw = together_bytes(plan, order)
        if raw is not None:
            decode(raw, oi, 'writer')
        ev = {'o': oi, 'via': 'encode'}
        reset_step_budget()
        eb = None
        try:
            eb = bytes(enc.process(together_json(plan, order), wire_template_data=False).serialized_bytes)
            ev['hex'] = eb.hex()
        except Exception as e:
            ev['exc'] = exc_info(e)
        events.append(ev)
        if eb is not None:
            decode(eb, oi, 'encoder')
    return {'events': events}


core.register('subsim', execute)


# ----------------------------------------------------------------------------
def oracle(plan, tr):
    out = []
    which = 'cdig' if plan.get('compiled') is not None else 'dig'
    for ev in tr['events']:
        order = plan['orders'][ev['o']]
        if ev['via'] == 'encode':
            if 'exc' in ev:
                out.append({'property': 'C06', 'clause': 'C06.encode', 'op': 'refused', 'exc_type': ev['exc']['type'],
                            'raise_site': ev['exc']['site']})
                continue
            # the data bits written for the subsets together are the alone data bits, one after the other
            if all(plan['alone'][i]['reenc'] and plan['alone'][i]['nbits'] is not None for i in order):
                acc, total = 0, 0
                for i in order:
                    a = plan['alone'][i]
                    acc = (acc << a['nbits']) | take_bits(data_payload(bytes.fromhex(a['hex'])), a['nbits'])
                    total += a['nbits']
                pe = data_payload(bytes.fromhex(ev['hex']))
                got = take_bits(pe, total) if pe is not None else None
                rest_zero = pe is not None and got is not None and \
                    (int.from_bytes(pe, 'big') & ((1 << (len(pe) * 8 - total)) - 1)) == 0
                if got != acc or not rest_zero:
                    out.append({'property': 'C06', 'clause': 'C06.encode', 'op': 'bits'})
            continue
        clause = 'C06.decode' if ev['via'] == 'writer' else 'C06.encode'
        if 'exc' in ev:
            out.append({'property': 'C06', 'clause': clause, 'op': 'raises', 'exc_type': ev['exc']['type'],
                        'raise_site': ev['exc']['site']})
            continue
        if len(ev['r']) != len(order):
            out.append({'property': 'C06', 'clause': clause, 'op': 'count'})
            continue
        bad = None
        # a content whose hierarchical structure cannot be built alone: together with others the structure must
        # fail as well (then nothing more is asked about structure); if every content can be wired alone, the
        # structure of every position must be the one it has alone
        unwireable = any(plan['alone'][i][which].get('n') == 'raise' for i in order)
        for p, (i, got) in enumerate(zip(order, ev['r'])):
            exp = plan['alone'][i][which]
            for key, name in (('c', 'values'), ('v', 'values'), ('l', 'labels'), ('k', 'links'), ('n', 'structure')):
                if key == 'n' and unwireable:
                    if got.get('n') != 'raise':
                        bad = 'structure-built-although-a-subset-cannot-be-wired-alone'
                    continue
                if got.get(key) != exp.get(key):
                    bad = name
                    break
            if bad:
                break
        if bad:
            out.append({'property': 'C06', 'clause': clause, 'op': bad})
        elif ev['via'] == 'writer' and not ev.get('nb'):
            out.append({'property': 'C06', 'clause': clause, 'op': 'span'})
    # one signature per (clause, op)
    seen, uniq = set(), []
    for s in out:
        k = json.dumps(s, sort_keys=True)
        if k not in seen:
            seen.add(k)
            uniq.append(s)
    return uniq


def shape(plan, tr=None):
    def canon_order(o):
        m = {}
        return tuple(m.setdefault(x, len(m)) for x in o)
    return (plan['kind'], plan['opkind'], plan.get('compiled') is not None, tuple(canon_order(o) for o in plan['orders']))


def nontrivial(plan, tr):
    """a history in which the layout differs from one subset to the next"""
    for o in plan['orders']:
        if len(set((plan['alone'][i]['nbits'], plan['alone'][i]['dig']['c']) for i in o)) > 1:
            return True
    return False


def valid(plan):
    k = len(plan['alone'])
    return bool(plan['orders']) and all(len(o) >= 1 and all(0 <= i < k for i in o) for o in plan['orders'])


def shrink_candidates(plan):
    def cp():
        return json.loads(json.dumps(plan))
    if len(plan['orders']) > 1:
        for j in range(len(plan['orders'])):
            p = cp()
            del p['orders'][j]
            yield p
    for j, o in enumerate(plan['orders']):
        if len(o) > 1:
            for x in range(len(o)):
                p = cp()
                del p['orders'][j][x]
                yield p
    if plan.get('compiled') is not None:
        p = cp()
        p['compiled'] = None
        yield p
    if plan.get('pad4'):
        p = cp()
        p['pad4'] = 0
        yield p
    # drop contents that no order uses
    used = sorted(set(i for o in plan['orders'] for i in o))
    if len(used) < len(plan['alone']) and 0 in used:
        p = cp()
        remap = dict((i, n) for n, i in enumerate(used))
        p['alone'] = [plan['alone'][i] for i in used]
        p['orders'] = [[remap[i] for i in o] for o in plan['orders']]
        yield p
