"""
pool -- workload pool shared by the engines: corpus messages carved independently out of the
repository's sample files, synthetic messages from bufrgen, admission in pristine children.
"""
import glob
import os
import random

from sim import bufrgen, core, observe

MAX_MSG = 6000

core.register('admit', observe.admit)


def corpus_messages(max_len=MAX_MSG):
    out = []
    files = sorted(glob.glob(os.path.join(core.REPO, 'tests', 'data', '*.bufr')) +
                   glob.glob(os.path.join(core.REPO, 'tests', 'benchmark_data', '*.bufr')))
    for f in files:
        with open(f, 'rb') as fh:
            buf = fh.read()
        for k, m in enumerate(bufrgen.carve(buf)):
            if len(m) <= max_len:
                out.append({'ref': 'corpus:%s#%d' % (os.path.basename(f), k), 'hex': m.hex(), 'src': 'corpus'})
    return out


# ----------------------------------------------------------------------------
# synthetic messages
_PLAIN_SEQ = {}


def _plain_sequences(version):
    if version not in _PLAIN_SEQ:
        b, d = bufrgen.load_tables(version)
        ok = []
        for sid in sorted(d):
            if bufrgen.sequence_is_plain(d, b, sid):
                n = _count_elems(d, sid)
                if 1 <= n <= 30:
                    ok.append(sid)
        _PLAIN_SEQ[version] = ok
    return _PLAIN_SEQ[version]


def _count_elems(d, sid, depth=0):
    """expanded element count of a plain sequence (fixed replication multiplies)"""
    nodes = bufrgen.parse_ids(d[sid])

    def cnt(ns):
        t = 0
        for n in ns:
            if n[0] == 'e':
                t += 1
            elif n[0] == 'f':
                t += n[1] * cnt(n[2])
            elif n[0] == 's':
                t += _count_elems(d, n[1], depth + 1)
        return t
    return cnt(nodes)


def _elements(version):
    b, _ = bufrgen.load_tables(version)
    return sorted(i for i, info in b.items()
                  if (i // 1000) not in (0, 31, 33) and 1 <= info[4] <= 256
                  and (info[1] != bufrgen.STRING_UNIT or info[4] % 8 == 0))


SIGS = [b'BUFR', b'7777', b'BUF', b'BUFRBUFR', b'7777BUFR']


def gen_template(rng, version, max_top=6, depth=0):
    b, d = bufrgen.load_tables(version)
    els = _elements(version)
    seqs = _plain_sequences(version)
    facs = [f for f in (31001, 31000, 31002) if f in b]
    nodes = []
    for _ in range(rng.randint(1, max_top)):
        r = rng.random()
        if r < 0.62 or depth >= 2:
            nodes.append(['e', rng.choice(els)])
        elif r < 0.74:
            nodes.append(['f', rng.randint(1, 3), gen_template(rng, version, 2, depth + 1)])
        elif r < 0.88 and facs:
            nodes.append(['d', rng.choice(facs), gen_template(rng, version, 2, depth + 1)])
        elif seqs:
            nodes.append(['s', rng.choice(seqs)])
        else:
            nodes.append(['e', rng.choice(els)])
    return nodes


def _raw_for(rng, info, sig_ok=True):
    _name, unit, _scale, _ref, nbits = info
    if unit == bufrgen.STRING_UNIT:
        nb = nbits // 8
        r = rng.random()
        if r < 0.12:
            return (b'\xff' * nb).hex()
        if r < 0.30 and nb >= 4 and sig_ok:
            sig = rng.choice(SIGS)[:nb]
            pad = nb - len(sig)
            k = rng.randint(0, pad)
            return (b' ' * k + sig + b' ' * (pad - k)).hex()
        return bytes(rng.choice(b'ABCDEFGHIJKLMNOPQRSTUVWXYZ0123456789 -') for _ in range(nb)).hex()
    top = (1 << nbits) - 1
    r = rng.random()
    if r < 0.15:
        return 0
    if r < 0.27:
        return top
    if r < 0.37:
        return max(0, top - 1)
    return rng.randint(0, top)


def gen_raws(rng, tree, factors=None, record=None):
    """raw values for ONE subset; `factors` replays recorded replication factors (compressed)."""
    out = []
    fit = iter(factors) if factors is not None else None

    def walk(t):
        for n in t:
            if n[0] == 'e':
                out.append(_raw_for(rng, n[2]))
            elif n[0] == 'f':
                for _ in range(n[1]):
                    walk(n[2])
            elif n[0] == 'q':
                walk(n[2])
            else:
                nb = n[1][1][4]
                if fit is not None:
                    k = next(fit)
                else:
                    k = rng.choice([0, 0, 1, 1, 2, 3]) if nb > 1 else rng.randint(0, 1)
                    if record is not None:
                        record.append(k)
                out.append(k)
                for _ in range(k):
                    walk(n[2])
    walk(tree)
    return out


def gen_spec(rng, nested_hex=None, version=None, template=None, force=None):
    force = force or {}
    versions = bufrgen.table_versions()
    version = version or rng.choice(versions)
    ed = force.get('edition') or rng.choice([2, 3, 3, 4, 4, 4])
    template = template or gen_template(rng, version)
    if force.get('local'):
        b, d = bufrgen.load_tables_local(version, *force['local'])
    else:
        b, d = bufrgen.load_tables(version)
    tree = bufrgen._expand(template, b, d)
    comp = force.get('compressed', rng.random() < 0.3)
    nsub = force.get('nsub') or rng.choice([1, 1, 1, 2, 2, 3, 4])
    subsets = []
    rec = []
    first = gen_raws(rng, tree, record=rec)
    subsets.append(first)
    for _ in range(nsub - 1):
        if comp:
            # same structure; vary some columns, keep others equal
            s = gen_raws(rng, tree, factors=rec)
            s = [a if rng.random() < 0.4 else c for a, c in zip(first, s)]
            subsets.append(_merge_keep_factors(tree, rec, first, s))
        else:
            subsets.append(gen_raws(rng, tree))
    sec2 = None
    r = rng.random()
    if r < 0.04:
        sec2 = ''           # section 2 present and empty (4 octets): valid, and its zero-width field is a corner
    elif r < 0.15:
        sec2 = bytes(rng.randrange(256) for _ in range(rng.randint(0, 24))).replace(b'BUFR', b'BUFX').hex()
    elif r < 0.30:
        sig = rng.choice(SIGS)
        sec2 = (bytes(rng.randrange(65, 91) for _ in range(rng.randint(0, 6))) + sig +
                bytes(rng.randrange(65, 91) for _ in range(rng.randint(0, 6)))).hex()
    elif r < 0.36 and nested_hex:
        sec2 = nested_hex
    pads = {}
    if rng.random() < 0.3:
        pads = {'1': rng.choice([0, 1, 2, 3]), '2': rng.choice([0, 1, 2]),
                '3': rng.choice([0, 1]), '4': rng.choice([0, 1, 2, 4])}
    cat = rng.choice([c for c in range(0, 32) if c != 11] + [255, 101, 200])
    if force.get('local'):
        centre, subcentre, lv = force['local']
    else:
        centre = rng.choice([0, 7, 74, 98, 255]) if ed != 2 else rng.choice([0, 7, 98, 300])
        subcentre = rng.choice([0, 0, 3, 255]) if ed == 3 else rng.choice([0, 0, 3, 1000])
        lv = 0
    return {'edition': ed, 'version': version, 'local_version': lv,
            'centre': centre,
            'subcentre': subcentre,
            'category': cat, 'subcategory': rng.randint(0, 255), 'local_subcategory': rng.randint(0, 255),
            'update': rng.randint(0, 3),
            'date': [rng.randint(1990, 2030), rng.randint(1, 12), rng.randint(1, 28), rng.randint(0, 23),
                     rng.randint(0, 59), rng.randint(0, 59)],
            'sec2': sec2, 'pads': pads, 'compressed': comp, 'template': template, 'subsets': subsets,
            'observed': rng.random() < 0.8}


def _merge_keep_factors(tree, rec, first, other):
    """In compressed data every subset has the same replication factors; positions of the
    factor slots are the same in every subset, so copy them from `first`."""
    pos = []
    fit = iter(rec)
    i = [0]

    def walk(t):
        for n in t:
            if n[0] == 'e':
                i[0] += 1
            elif n[0] == 'f':
                for _ in range(n[1]):
                    walk(n[2])
            elif n[0] == 'q':
                walk(n[2])
            else:
                k = next(fit)
                pos.append(i[0])
                i[0] += 1
                for _ in range(k):
                    walk(n[2])
    walk(tree)
    out = list(other)
    for p in pos:
        out[p] = first[p]
    return out


def synthetic_messages(seed, n, collide=True):
    """n synthetic pool messages; every 5th is a 'collision twin': same descriptor list under a
    table version in which one of its elements has a different width/scale/reference."""
    rng = random.Random(seed)
    out = []
    small = None
    twins = _collision_elements()
    for i in range(n):
        if collide and i % 7 == 3:
            # 'local twins': one descriptor list under the same WMO version with different local tables
            # (centre 98: none, 1, 101), containing an id whose meaning depends on the local table
            out.extend(_local_twins(rng, seed, i))
            continue
        if collide and i % 11 == 7:
            # an NCEP-layout table-definition message (data category 11) over ids nobody else uses
            from sim import defsim
            # ids that no bundled table (WMO or local) defines: no pool message can depend on them
            taken = bufrgen.all_defined_ids()
            eids = rng.sample(range(48000, 64000), rng.randint(1, 4))
            b_entries = [defsim.gen_b_entry(rng, e) for e in eids if e % 1000 < 256 and e not in taken]
            if b_entries:
                msg, _t = defsim.write_definition(rng, rng.choice([13, 13, 20, 33]), rng.choice([3, 4]), b_entries, [],
                                                  [('%03d' % rng.randint(200, 255), 'VERIF', 'POOL')])
                out.append({'ref': 'synth:%d:def%d' % (seed, i), 'hex': msg.hex(), 'src': 'synth'})
            continue
        if collide and i % 7 == 5:
            # 'nest twins': identical top-level descriptor ids, different members inside a replication
            out.extend(_nest_twins(rng, seed, i))
            continue
        if collide and twins and i % 5 == 4:
            eid, va, vb = rng.choice(twins)
            ba, _ = bufrgen.load_tables(va)
            extra = [e for e in _elements(va) if e in bufrgen.load_tables(vb)[0] and
                     bufrgen.load_tables(vb)[0][e][1:] == ba[e][1:]]
            tmpl = [['e', rng.choice(extra)] for _ in range(rng.randint(0, 2))] + [['e', eid]] + \
                   [['e', rng.choice(extra)] for _ in range(rng.randint(0, 2))]
            ed = rng.choice([3, 4])
            for v in (va, vb):
                spec = gen_spec(rng, version=v, template=tmpl, force={'edition': ed})
                msg, truth = bufrgen.write_message(spec)
                out.append({'ref': 'synth:%d:twin%d-v%d' % (seed, i, v), 'hex': msg.hex(), 'src': 'synth',
                            'truth': truth, 'twin': '%d:%d' % (seed, i)})
            continue
        spec = gen_spec(rng, nested_hex=small if rng.random() < 0.5 else None)
        if collide and i % 23 == 13:
            # a valid message whose sections 0-3 alone exceed 64 KiB (a large local section 2): whatever
            # reads only a head of the input to get at the metadata meets its limit
            spec['sec2'] = bytes(rng.randrange(256) for _ in range(rng.choice([65530, 65540, 66000, 70001]))
                                 ).replace(b'BUFR', b'BUFX').hex()
            msg, truth = bufrgen.write_message(spec)
            if len(msg) < (1 << 24):
                out.append({'ref': 'synth:%d:%d:large-header' % (seed, i), 'hex': msg.hex(), 'src': 'synth',
                            'truth': truth})
            continue
        plain11 = collide and i % 13 == 9
        if plain11:
            # data category 11 (BUFR tables) with an ordinary template: a valid message like any other - it is
            # not a table definition in the NCEP layout, nothing is to be registered from it
            spec['category'] = 11
        msg, truth = bufrgen.write_message(spec)
        if len(msg) > MAX_MSG:
            continue
        if small is None or (len(msg) < 120 and rng.random() < 0.3):
            small = msg.hex()
        out.append({'ref': 'synth:%d:%d%s' % (seed, i, ':cat11' if plain11 else ''), 'hex': msg.hex(), 'src': 'synth',
                    'truth': truth})
    return out


LOCAL_SENSITIVE = {  # id -> local versions (centre 98) in which it is defined; 0 = WMO version 13 itself
    7065: (0, 101), 8079: (0, 101), 10083: (0, 101), 10084: (0, 101), 15008: (0, 101), 15021: (0, 101),
    1211: (1, 101), 2201: (1, 101)}


def _local_twins(rng, seed, i):
    out = []
    eid = rng.choice(sorted(LOCAL_SENSITIVE))
    lvs = list(LOCAL_SENSITIVE[eid])
    if 0 in lvs and rng.random() < 0.7:
        lvs.append(1)           # local table 1 does not mention the id: the WMO meaning applies
    common = [e for e in _elements(13) if e // 1000 in (1, 2, 4, 5, 6, 12)]
    tmpl = [['e', rng.choice(common)] for _ in range(rng.randint(0, 2))] + [['e', eid]] + \
           [['e', rng.choice(common)] for _ in range(rng.randint(0, 2))]
    if rng.random() < 0.3:
        tmpl = [['f', 2, tmpl]]
    ed = rng.choice([3, 4])
    for lv in lvs:
        b, _d = bufrgen.load_tables_local(13, 98, 0, lv)
        if eid not in b or b[eid][4] > 64:
            continue
        spec = gen_spec(rng, version=13, template=tmpl, force={'edition': ed, 'local': (98, 0, lv)})
        msg, truth = bufrgen.write_message(spec)
        out.append({'ref': 'synth:%d:ltwin%d-l%d' % (seed, i, lv), 'hex': msg.hex(), 'src': 'synth',
                    'truth': truth, 'twin': 'l%d:%d' % (seed, i)})
        if lv and rng.random() < 0.5:
            # the same message naming local tables that are NOT shipped (sub-centre 70): a decoder falls
            # back to the centre's tables 98_0/<lv>, an encoder refuses - whatever was processed before
            spec = gen_spec(rng, version=13, template=tmpl, force={'edition': ed, 'local': (98, 70, lv)})
            msg, truth = bufrgen.write_message(spec)
            out.append({'ref': 'synth:%d:ltwin%d-l%d-sub70' % (seed, i, lv), 'hex': msg.hex(), 'src': 'synth',
                        'truth': truth, 'twin': 'l%d:%d' % (seed, i)})
    return out


def _nest_twins(rng, seed, i):
    out = []
    version = rng.choice([v for v in bufrgen.table_versions() if v >= 13])
    els = [e for e in _elements(version) if bufrgen.load_tables(version)[0][e][4] <= 32]
    k = rng.randint(1, 2)
    outer = [['e', rng.choice(els)] for _ in range(rng.randint(0, 2))]
    ed = rng.choice([3, 4])
    delayed = rng.random() < 0.5
    n = rng.randint(1, 3)
    for t in range(2):
        inner = [['e', rng.choice(els)] for _ in range(k)]
        rep = ['d', 31001, inner] if delayed else ['f', n, inner]
        tmpl = outer[:1] + [rep] + outer[1:]
        spec = gen_spec(rng, version=version, template=tmpl, force={'edition': ed, 'compressed': False})
        msg, truth = bufrgen.write_message(spec)
        out.append({'ref': 'synth:%d:ntwin%d-%d' % (seed, i, t), 'hex': msg.hex(), 'src': 'synth',
                    'truth': truth, 'twin': 'n%d:%d' % (seed, i)})
    return out


# ----------------------------------------------------------------------------
# operator-bearing templates: framed by bufrgen, data bits random (any bit pattern of sufficient
# length decodes to *something*); only the bitmap bits are placed, which needs nothing but the
# Table B widths of the operator-free prefix. No ground truth: these serve differential oracles
# (history vs fresh process, compiled vs interpreted), after admission by a lone decode.
OPERATOR_KINDS = ['bitmap', 'bitmap', 'bitmap', 'plain-ops', 'plain-ops', 'plain-ops', 'bitmap-blocks',
                  'bitmap-blocks', 'seq-ops', 'seq-ops', 'wide', 'bitmap+203', 'bitmap+204', 'bitmap+dbm',
                  'bitmap+dbm', 'plain-ops+221', 'bitmap+qar', 'bitmap+qam', 'plain-ops+inner', 'bitmap+lead']


def gen_operator_spec(rng, version=None, rv=None, force_n=None, perm=False, kind=None):
    """`rng` decides the PROGRAM (descriptor list); `rv` decides the DATA CONTENT (values, delayed
    replication factors, arrangement of the bitmap bits): the same rng seed with another rv gives the
    same descriptor list with other data. force_n fixes the delayed replication factor."""
    seedv = rng.getrandbits(32)
    rv = rv or random.Random(seedv)
    versions = [v for v in bufrgen.table_versions() if v >= 13]
    version = version or rng.choice(versions)
    b, _d = bufrgen.load_tables(version)
    els = [e for e in _elements(version) if b[e][4] <= 64 or b[e][1] == bufrgen.STRING_UNIT and b[e][4] <= 160]
    nums = [e for e in els if b[e][1] != bufrgen.STRING_UNIT and 'able' not in b[e][1].lower()
            and 2 <= b[e][4] <= 32]
    strs = [e for e in els if b[e][1] == bufrgen.STRING_UNIT]
    ids = []
    bits = BitsOut()

    def rnd(n):
        bits.add(rv.getrandbits(n) if n else 0, n)

    drawn = rng.choice(OPERATOR_KINDS)
    kind = kind or drawn        # a caller may fix the kind (stratified pools); the draw is made either way
    # feature interactions of the bitmap programs: '+203' - new reference values (203YYY) defined for an element
    # the bitmap refers to, cancelled before the bitmap operator or still in force at the marker operators;
    # '+204' - an associated field (204YYY) in force at the marker operators; '+dbm' - the bits of the bitmap
    # stand under a DELAYED replication (factor 0..k, so that a bitmap of no bits at all occurs)
    variant = kind.split('+')[1] if '+' in kind else None
    if kind == 'bitmap-blocks':
        return _gen_bitmap_blocks_spec(rng, version, b, nums, strs, rv, force_n)
    if kind in ('seq-ops', 'wide'):
        return _gen_seq_ops_spec(rng, version, b, _d, nums, rv, kind)
    has_factor = False
    if kind.startswith('plain-ops'):
        factor_prefix = b''
        for gi in range(rng.randint(1, 4)):
            g = []
            r = rng.random()
            if kind == 'plain-ops+221' and gi == 0:
                r = 0.99            # 221YYY (data not present) for certain
            force_inner = kind == 'plain-ops+inner' and gi == 0
            if force_inner:
                r = r * 0.45        # 201 / 202 / 207 with a delayed replication inside its scope, for certain
            if r < 0.15:
                g += [201000 + rng.choice([126, 127, 129, 130, 132]), rng.choice(nums), rng.choice(nums), 201000]
            elif r < 0.30:
                g += [202000 + rng.choice([126, 127, 129, 130]), rng.choice(nums), 202000]
            elif r < 0.45:
                g += [207000 + rng.choice([1, 2, 3]), rng.choice(nums), rng.choice(nums), 207000]
            elif r < 0.60 and strs:
                g += [208000 + rng.randint(1, 12), rng.choice(strs), rng.choice(nums), rng.choice(strs), 208000]
            elif r < 0.72:
                e1, e2 = rng.choice(nums), rng.choice(nums)
                nonzero = [e for e in nums if b[e][3] != 0]
                if nonzero and rng.random() < 0.6:
                    e1 = rng.choice(nonzero)        # an element whose Table B reference value is not 0
                y203 = rng.randint(6, 16)
                if gi == 0 and not ids and 31001 in b and rng.random() < 0.3:
                    # the DEFINITION of the new reference value stands under a delayed replication (0..3 times):
                    # executed zero times nothing is re-defined and the element keeps its Table B reference
                    n = rv.choice([0, 0, 1, 2, 3]) if force_n is None else force_n
                    ids += [203000 + y203, 101000, 31001, e1, 203255, e1, rng.choice(nums), 203000]
                    factor_prefix = bytes([n])
                    has_factor = True
                    if rng.random() < 0.5:
                        ids.append(rng.choice(els))
                    continue
                g += [203000 + y203, e1, e2, 203255, e1, rng.choice(nums), e2, 203000]
                if gi == 0 and not ids and rng.random() < 0.6:
                    # the group opens the data section, unwrapped: its new reference values sit at bit 0 and
                    # the data content may make them exactly zero (sign and magnitude all zero)
                    ids += g
                    nb203 = (2 * y203 + 7) // 8
                    factor_prefix = bytes(nb203) if rv.random() < 0.5 else bytes(rv.randrange(256) for _ in range(nb203))
                    if rng.random() < 0.5:
                        ids.append(rng.choice(els))
                    continue
            elif r < 0.84 and 31021 in b:
                g += [204000 + rng.randint(1, 8), 31021, rng.choice(nums), rng.choice(els), 204000]
            elif r < 0.88:
                g += [206000 + rng.randint(1, 24), 63000 + rng.randint(200, 250), rng.choice(nums)]
            elif r < 0.92:
                g += [205000 + rng.randint(1, 8), rng.choice(nums)]
            else:
                # data not present for the next YYY descriptors except classes 1-9 and 31
                y = rng.randint(2, 5)
                g += [221000 + y, rng.choice([e for e in nums if 1 <= e // 1000 <= 9] or nums)] + \
                     [rng.choice(els) for _ in range(y - 1)]
            # a replication INSIDE the operator's scope (opened and closed at the same level around it):
            # 201YYY / 202YYY / 207YYY e (1XX00n | 1XX000 031001) e.. e 20X000
            if r < 0.45 and (force_inner or rng.random() < 0.35):
                opn, cls = g[0], g[-1]
                inner = [rng.choice(nums) for _ in range(rng.randint(1, 2))]
                if gi == 0 and not ids and (force_inner or rng.random() < 0.6):
                    # delayed: only as the first data item, where the factor's bits are known (the operator
                    # may widen the factor: 16 bits of which only the low two are set keep every reading small)
                    n = rv.choice([0, 1, 2, 3]) if force_n is None else force_n
                    g = [opn, 100000 + len(inner) * 1000, 31001] + inner + [rng.choice(nums), cls]
                    factor_prefix = bytes([0, n, 0, n])
                    has_factor = True
                else:
                    g = [opn, rng.choice(nums), 100000 + len(inner) * 1000 + rng.randint(1, 3)] + inner + [cls]
                ids += g
                if rng.random() < 0.5:
                    ids.append(rng.choice(els))
                continue
            # the operator is opened and closed inside one replication scope: wrap the whole group.
            # A delayed replication only as the very first thing, where its factor sits at bit 0.
            w = rng.random()
            if gi == 0 and w < 0.3 and r < 0.84:
                n = rv.choice([0, 0, 1, 2, 3]) if force_n is None else force_n
                g = [100000 + len(g) * 1000, 31001] + g
                factor_prefix = bytes([n])
                has_factor = True
            elif w < 0.5 and r < 0.84:
                g = [100000 + len(g) * 1000 + rng.randint(1, 3)] + g
            ids += g
            if rng.random() < 0.5:
                ids.append(rng.choice(els))
        data = factor_prefix + bytes(rv.randrange(256) for _ in range(64 + 24 * len(ids)))
    else:
        k = rng.randint(1, 5)
        # a delayed replication BEFORE the elements the bitmap refers to: the layout in front of the bitmap
        # then differs from one data content to the next (and from subset to subset in the multi-subset
        # variants), and the bitmap window may reach into the replicated part
        lead = (rng.random() < 0.35 or variant == 'lead') and 31001 in b
        if lead:
            e0 = rng.choice(nums)
            n = rv.choice([0, 1, 2, 3]) if force_n is None else force_n
            ids += [101000, 31001, e0]
            bits.add(n, b[31001][4])
            for _ in range(n):
                rnd(b[e0][4])
            has_factor = True
        prefix = [rng.choice(nums + strs[:8] if rng.random() < 0.5 else nums) for _ in range(k)]
        if rng.random() < 0.5 and strs:
            prefix[rng.randrange(k)] = rng.choice(strs)
        close_203 = None
        if variant == '203':
            # 203YYY e 203255 in front of the elements, e being the last of them (inside the bitmap window)
            e1 = rng.choice(nums)
            nonzero = [e for e in nums if b[e][3] != 0]
            if nonzero and rng.random() < 0.6:
                e1 = rng.choice(nonzero)        # an element whose Table B reference value is not 0
            prefix[-1] = e1
            y = rng.randint(4, 20)
            ids += [203000 + y, e1, 203255]
            bits.add(0 if rv.random() < 0.35 else rv.getrandbits(y), y)     # a new reference value of exactly 0 is a value
            close_203 = rng.choice(['before-operator', 'after-markers'])
        for e in prefix:
            ids.append(e)
            rnd(b[e][4])
        if close_203 == 'before-operator':
            ids.append(203000)
        if variant == '204' and 31021 in b:
            ids += [204000 + rng.randint(1, 8), 31021]
            rnd(b[31021][4])
        op = rng.choice([222000, 223000, 223000, 224000, 225000, 232000])
        if variant in ('qar', 'qam'):
            # quality information (222000) whose 'follows' status is data dependent: 'qar' - class 33 values
            # under a delayed replication (0..z times), an ordinary element, then a class 33 value again;
            # 'qam' - the bitmap re-used by marker operators (223000 237000 223255..), then a class 33 value
            op = 222000
        ids.append(op)
        reuse = rng.random() < 0.25 or variant == 'qam'
        if reuse:
            ids.append(236000)
        nb = rng.randint(1, k)
        if lead and rng.random() < 0.4 and variant != 'dbm':
            nb = k + 1                  # the window reaches the last replicated element (when there is one)
            prefix = [e0] + prefix      # (only used below to pick plausible modifiers)
            k += 1
        if variant == 'dbm' and 31001 in b:
            # the number of 031031 is data: z zero bits (as many marker / class 33 values follow - that is the
            # program), z..k bits in all
            z = rng.randint(0, min(k, 3))
            nb = force_n if (force_n is not None and z <= force_n <= k) else rv.randint(z, k)
            ids += [101000, 31001, 31031]
            bits.add(nb, b[31001][4])
            bitmap = [0] * z + [1] * (nb - z)
            rv.shuffle(bitmap)
            has_factor = True
        else:
            ids += [101000 + nb, 31031]
            bitmap = [rng.choice([0, 0, 1]) for _ in range(nb)]
            if all(bitmap):
                bitmap[rng.randrange(nb)] = 0
            if perm:
                rv.shuffle(bitmap)      # another arrangement of the same number of set bits: same descriptor list
        for bit in bitmap:
            bits.add(bit, 1)
        z = bitmap.count(0)
        if op == 224000 and 8023 in b:
            ids.append(8023)
        if op == 225000 and 8024 in b:
            ids.append(8024)
        if op == 222000 and variant == 'qar' and 31001 in b and z >= 1:
            q = rng.choice([q for q in (33007, 33002, 33003) if q in b])
            n = rv.choice([0, 0, 1, 2, 3]) if force_n is None else force_n
            n = min(n, z)
            ids += [101000, 31001, q, rng.choice(nums), q]
            bits.add(n, b[31001][4])
            has_factor = True
        elif op == 222000 and variant == 'qam':
            q = rng.choice([q for q in (33007, 33002, 33003) if q in b])
            ids += [q] * z
            op2 = rng.choice([223000, 232000])
            ids += [op2, 237000] + [op2 + 255] * z + [q]
        elif op == 222000:
            if rng.random() < 0.5 and 1031 in b:
                ids.append(1031)
            q = rng.choice([q for q in (33007, 33002, 33003) if q in b])
            ids += [q] * z
        else:
            mod = rng.choice([None, None, 'w', 's', 'b', 'n'])
            r_mod = rng.random()
            # (with the bits of the bitmap under a delayed replication their number is data, not program: the
            # whole prefix stands for the window)
            if any(b[e][1] == bufrgen.STRING_UNIT for e in prefix[k - (k if variant == 'dbm' else nb):]) and r_mod < 0.5:
                mod = 'n'
            if mod == 'w':
                ids.append(201000 + rng.choice([126, 130, 132]))
            elif mod == 's':
                ids.append(202000 + rng.choice([127, 129]))
            elif mod == 'b':
                ids.append(207000 + rng.choice([1, 2]))
            elif mod == 'n':
                ids.append(208000 + rng.randint(1, 10))
            ids += [op + 255] * z
            if mod:
                ids.append({'w': 201000, 's': 202000, 'b': 207000, 'n': 208000}[mod])
            if variant == '204' and 31021 in b and rng.random() < 0.8:
                ids.append(204000)
            if close_203 == 'after-markers':
                ids.append(203000)
                close_203 = None
            if reuse and rng.random() < 0.6:
                # a second use of the same bitmap
                ids += [op, 237000]
                if op == 224000 and 8023 in b:
                    ids.append(8023)
                if op == 225000 and 8024 in b:
                    ids.append(8024)
                ids += [op + 255] * z
        if close_203 == 'after-markers':
            ids.append(203000)
        if rng.random() < 0.5:
            ids.append(rng.choice(nums))
        data = bits.to_bytes() + bytes(rv.randrange(256) for _ in range(64 + 48 * k))
    ed = rng.choice([3, 4, 4])
    return {'edition': ed, 'version': version, 'local_version': 0, 'centre': rng.choice([0, 7, 98]),
            'subcentre': 0, 'category': rng.choice([0, 2, 6, 12]), 'subcategory': 0, 'local_subcategory': 0,
            'update': 0, 'date': [2021, 2, 3, 4, 5, 6], 'sec2': None, 'pads': {}, 'compressed': False,
            'observed': True, 'raw_ids': ids, 'raw_data': data.hex(), 'nsub': 1, 'opkind': kind,
            'has_factor': has_factor, 'has_bitmap': kind.startswith('bitmap')}


def _gen_seq_ops_spec(rng, version, b, d, nums, rv, kind):
    """'seq-ops': a Table D sequence used INSIDE the scope of an operator (201 / 202 / 207, or 203 re-defining the
    reference values of some of its elements) and the same sequence OUTSIDE it, before and/or after - whatever is
    remembered per sequence must take the operator state into account.
    'wide': 201YYY with a large YYY: numeric fields wider than 64 bits (some all ones).
    Data bits are random (any bit pattern of sufficient length decodes to something)."""
    ids = []
    if kind == 'wide':
        for _ in range(rng.randint(1, 2)):
            y = rng.choice([160, 165, 170, 180, 200, 230, 255])
            ids += [201000 + y] + [rng.choice(nums) for _ in range(rng.randint(1, 3))] + [201000]
            if rng.random() < 0.5:
                ids.append(rng.choice(nums))
        # all ones in front (missing values of the wide fields), then random
        data = (b'\xff' * rv.choice([0, 0, 16, 40])) + bytes(rv.randrange(256) for _ in range(64 + 40 * len(ids)))
    else:
        seqs = _plain_sequences(version)
        sid = rng.choice(seqs)

        def elems(x, depth=0):
            o = []
            for m in d.get(x, []):
                if m // 100000 == 3 and depth < 6:
                    o += elems(m, depth + 1)
                elif m // 100000 == 0:
                    o.append(m)
            return o
        # a third of the programs over a sequence that holds a character element: wholly inside a 203YYY
        # definition such a sequence cannot be turned into a template (the companion that fails INSIDE it)
        with_str = [x for x in seqs if any(e in b and b[e][1] == bufrgen.STRING_UNIT for e in elems(x))]
        if with_str and rng.random() < 0.35:
            sid = rng.choice(with_str)
        own = [e for e in elems(sid) if e in b and b[e][1] != bufrgen.STRING_UNIT and 'able' not in b[e][1].lower()
               and 2 <= b[e][4] <= 32]
        op = rng.choice([201, 202, 207, 203, 203]) if own else rng.choice([201, 202, 207])
        if rng.random() < 0.6:
            ids.append(sid)
        if op == 203:
            chosen = rng.sample(own, min(len(own), rng.randint(1, 2)))
            ids += [203000 + rng.randint(8, 16)] + chosen + [203255, sid]
            if rng.random() < 0.5:
                ids.append(rng.choice(chosen))
            ids.append(203000)
        else:
            y = {201: rng.choice([126, 127, 129, 130, 132]), 202: rng.choice([126, 127, 129, 130]), 207: rng.choice([1, 2, 3])}[op]
            ids += [op * 1000 + y, sid] + ([rng.choice(nums)] if rng.random() < 0.5 else []) + [op * 1000]
        if rng.random() < 0.7 or sid not in ids[:1]:
            ids.append(sid)
        if rng.random() < 0.3:
            ids.append(rng.choice(nums))
        n_el = sum(len(elems(x)) if x // 100000 == 3 else 1 for x in ids)
        data = bytes(rv.randrange(256) for _ in range(64 + 34 * n_el))
    ed = rng.choice([3, 4, 4])
    return {'edition': ed, 'version': version, 'local_version': 0, 'centre': rng.choice([0, 7, 98]),
            'subcentre': 0, 'category': rng.choice([0, 2, 6, 12]), 'subcategory': 0, 'local_subcategory': 0,
            'update': 0, 'date': [2021, 2, 3, 4, 5, 6], 'sec2': None, 'pads': {}, 'compressed': False,
            'observed': True, 'raw_ids': ids, 'raw_data': data.hex(), 'nsub': 1, 'opkind': kind,
            'has_factor': False, 'has_bitmap': False}


def _emit_block(rng, b, ids, bits, nums, strs, op, rv):
    """one self-contained bitmap block: k elements, operator, bitmap over the last nb of them, the
    bitmapped values, 235000. Every width is exact so that a second block / iteration stays aligned."""
    k = rng.randint(1, 4)
    prefix = [rng.choice(nums) for _ in range(k)]
    if strs and op != 222000 and rng.random() < 0.3:
        prefix[rng.randrange(k)] = rng.choice(strs)
    for e in prefix:
        ids.append(e)
        bits.add(rv.getrandbits(b[e][4]), b[e][4])
    ids.append(op)
    nb = rng.randint(1, k)
    ids += [101000 + nb, 31031]
    bitmap = [rng.choice([0, 0, 1]) for _ in range(nb)]
    if all(bitmap):
        bitmap[rng.randrange(nb)] = 0
    for bit in bitmap:
        bits.add(bit, 1)
    sel = [e for e, bit in zip(prefix[k - nb:], bitmap) if bit == 0]
    if op == 222000:
        q = rng.choice([q for q in (33007, 33002, 33003) if q in b])
        for _ in sel:
            ids.append(q)
            bits.add(rv.getrandbits(b[q][4]), b[q][4])
    else:
        sig = {224000: 8023, 225000: 8024}.get(op)
        if sig and sig in b:
            ids.append(sig)
            bits.add(rv.getrandbits(b[sig][4]) & ((1 << b[sig][4]) - 2), b[sig][4])
        for e in sel:
            ids.append(op + 255)
            w = b[e][4] + (1 if op == 225000 else 0)
            bits.add(rv.getrandbits(w), w)
    ids.append(235000)


def _gen_bitmap_blocks_spec(rng, version, b, nums, strs, rv, force_n=None):
    """bitmap blocks closed by 235000: two different blocks in a row, or one block inside a fixed /
    delayed replication executed 0..3 times"""
    ids = []
    bits = BitsOut()
    ops = [222000, 223000, 224000, 225000, 232000]
    shape = rng.choice(['two', 'two', 'fixed', 'delayed', 'delayed'])
    if shape == 'two':
        _emit_block(rng, b, ids, bits, nums, strs, rng.choice(ops), rv)
        for _ in range(rng.randint(0, 2)):
            e = rng.choice(nums)
            ids.append(e)
            bits.add(rv.getrandbits(b[e][4]), b[e][4])
        _emit_block(rng, b, ids, bits, nums, strs, rng.choice(ops), rv)
    else:
        # the block's descriptor list is generated once; the data of every iteration is generated for
        # that very list (same bitmap pattern: the number of bitmapped values is fixed by the template)
        op = rng.choice(ops)
        state = rng.getstate()
        inner_ids = []
        _emit_block(rng, b, inner_ids, BitsOut(), nums, strs, op, random.Random(0))
        after = rng.getstate()
        n_fixed = rng.randint(2, 3)
        n = n_fixed if shape == 'fixed' else (rv.choice([0, 1, 2, 2, 3]) if force_n is None else force_n)
        if shape == 'fixed':
            ids.append(100000 + len(inner_ids) * 1000 + n)
        else:
            ids += [100000 + len(inner_ids) * 1000, 31001]
            bits.add(n, b[31001][4])
        ids += inner_ids
        for _ in range(n):
            rng.setstate(state)
            _emit_block(rng, b, [], bits, nums, strs, op, rv)
        rng.setstate(after)
        rng.random()
    if rng.random() < 0.5:
        e = rng.choice(nums)
        ids.append(e)
        bits.add(rv.getrandbits(b[e][4]), b[e][4])
    data = bits.to_bytes() + bytes(rv.randrange(256) for _ in range(8))
    ed = rng.choice([3, 4, 4])
    return {'edition': ed, 'version': version, 'local_version': 0, 'centre': rng.choice([0, 7, 98]),
            'subcentre': 0, 'category': rng.choice([0, 2, 6, 12]), 'subcategory': 0, 'local_subcategory': 0,
            'update': 0, 'date': [2021, 2, 3, 4, 5, 6], 'sec2': None, 'pads': {}, 'compressed': False,
            'observed': True, 'raw_ids': ids, 'raw_data': data.hex(), 'nsub': 1, 'opkind': 'bitmap-blocks-' + shape,
            'has_factor': shape == 'delayed', 'has_bitmap': False}


class BitsOut(object):
    def __init__(self):
        self.acc = 0
        self.n = 0

    def add(self, v, n):
        self.acc = (self.acc << n) | v
        self.n += n

    def to_bytes(self):
        pad = (-self.n) % 8
        return ((self.acc << pad).to_bytes((self.n + pad) // 8, 'big')) if self.n else b''


def exhibit_messages():
    """hand-written programs that show a genuine defect which is RECORDED, not repaired (known_findings.jsonl): they
    run in every C08 / C13 check; a violation on one of them carries its name in the signature, so that only that
    input is matched by the known finding and a different violation of the property is still reported. The random
    generators do not produce the class these stand for."""
    out = []
    b, _d = bufrgen.load_tables(29)
    # the bits of ONE bitmap under TWO delayed replications, the first executed zero times: the interpreter goes on
    # counting bits, the compiler - which walks each replication once - closes the bitmap at the second replication
    ids = [12001, 12001, 222000, 236000, 101000, 31001, 31031, 101000, 31001, 31031, 33007, 33007]
    bits = BitsOut()
    for v, n in ((2731, 12), (2800, 12), (0, 8), (2, 8), (0, 1), (0, 1), (70, 7), (80, 7)):
        bits.add(v, n)
    spec = {'edition': 4, 'version': 29, 'local_version': 0, 'centre': 0, 'subcentre': 0, 'category': 0,
            'subcategory': 0, 'local_subcategory': 0, 'update': 0, 'date': [2021, 2, 3, 4, 5, 6], 'sec2': None,
            'pads': {}, 'compressed': False, 'observed': True, 'raw_ids': ids, 'raw_data': (bits.to_bytes() + b'\0').hex(),
            'nsub': 1}
    msg, _t = bufrgen.write_message(spec)
    out.append({'ref': 'exhibit:bitmap-bits-in-two-replications', 'hex': msg.hex(), 'src': 'operator',
                'opkind': 'exhibit', 'exhibit': 'bitmap-bits-in-two-replications'})
    return out


def operator_messages(seed, n):
    rng = random.Random(seed)
    out = []
    # stratified: the kinds take turns (in a seeded order), so that a pool of a few dozen programs holds every kind
    order = list(OPERATOR_KINDS)
    random.Random(seed ^ 0x5bd1e995).shuffle(order)
    for i in range(n):
        ps = rng.getrandbits(48)          # the program
        pkind = order[i % len(order)]
        spec = gen_operator_spec(random.Random(ps), kind=pkind)
        msg, _truth = bufrgen.write_message(spec)
        if msg.find(b'BUFR', 1) >= 0:
            continue
        ent = {'ref': 'synop:%d:%d' % (seed, i), 'hex': msg.hex(), 'src': 'operator', 'opkind': spec['opkind']}
        out.append(ent)
        if spec['opkind'] == 'seq-ops':
            # companions in one group: the sequence on its own, and on its own after another element - whatever
            # a coder remembers about the sequence from one message meets it in another operator context
            sid = [x for x in spec['raw_ids'] if x // 100000 == 3][0]
            ent['twin'] = 'q%d:%d' % (seed, i)
            # ... and the sequence wholly inside a 203YYY definition: valid when every element of it is numeric;
            # where it holds a character element the template cannot be built by either path and fails INSIDE the
            # sequence - whatever that leaves behind meets the sequence again in the companions
            for j, ids2 in enumerate(([sid], [spec['raw_ids'][-1], sid] if spec['raw_ids'][-1] != sid else [sid, sid],
                                      [203010, sid, 203255, sid, 203000])):
                sp2 = dict(spec, raw_ids=ids2, opkind='seq-plain')
                m2, _t2 = bufrgen.write_message(sp2)
                if m2.find(b'BUFR', 1) < 0:
                    out.append({'ref': 'synop:%d:%d:q%d' % (seed, i, j), 'hex': m2.hex(), 'src': 'operator',
                                'opkind': 'seq-plain', 'twin': ent['twin']})
        # 'data twins': the SAME program with other data contents - every delayed replication factor in
        # 0..3, other arrangements of the bitmap bits, other values - so that one cached compiled template
        # is executed on different data in one history
        if (ps >> 3) % 2 == 0 and (spec['has_factor'] or spec['has_bitmap'] or i % 6 == 0) and spec['opkind'] != 'seq-ops':
            variants = [{'force_n': k} for k in range(4)] if spec['has_factor'] else [{}, {}]
            seen = set([msg])
            for j, kw in enumerate(variants):
                sp2 = gen_operator_spec(random.Random(ps), rv=random.Random(ps * 31 + j + 1),
                                        perm=spec['has_bitmap'], kind=pkind, **kw)
                assert sp2['raw_ids'] == spec['raw_ids'], 'data variants must not change the program'
                m2, _t = bufrgen.write_message(sp2)
                if m2 in seen or m2.find(b'BUFR', 1) >= 0:
                    continue
                seen.add(m2)
                ent['twin'] = 'd%d:%d' % (seed, i)
                out.append({'ref': 'synop:%d:%d:d%d' % (seed, i, j), 'hex': m2.hex(), 'src': 'operator',
                            'opkind': spec['opkind'] + '-data-twin', 'twin': ent['twin']})
    # 'marker twins': one descriptor list with a marker operator applied through a bitmap to an element
    # whose Table B definition differs between two master table versions
    tw = _collision_elements()
    for i in range(max(2, n // 8)):
        eid, va, vb = rng.choice(tw)
        common = [e for e in _elements(va) if e in bufrgen.load_tables(vb)[0] and
                  bufrgen.load_tables(vb)[0][e][1:] == bufrgen.load_tables(va)[0][e][1:] and
                  bufrgen.load_tables(va)[0][e][4] <= 32 and bufrgen.load_tables(va)[0][e][1] != bufrgen.STRING_UNIT]
        c1 = rng.choice(common)
        op = rng.choice([223000, 224000, 225000, 232000])
        first_bit = rng.choice([0, 1])
        ed = rng.choice([3, 4])
        seedv = rng.getrandbits(32)
        for v in (va, vb):
            b, _d = bufrgen.load_tables(v)
            r2 = random.Random(seedv)
            ids, bits = [], BitsOut()
            for e in (c1, eid):
                ids.append(e)
                bits.add(r2.getrandbits(b[e][4]), b[e][4])
            ids += [op, 101002, 31031]
            bits.add(first_bit, 1)
            bits.add(0, 1)
            sig = {224000: 8023, 225000: 8024}.get(op)
            if sig and sig in b:
                ids.append(sig)
                bits.add(r2.getrandbits(b[sig][4]) & ((1 << b[sig][4]) - 2), b[sig][4])
            for e in ([c1] if first_bit == 0 else []) + [eid]:
                ids.append(op + 255)
                w = b[e][4] + (1 if op == 225000 else 0)
                bits.add(r2.getrandbits(w), w)
            spec = {'edition': ed, 'version': v, 'local_version': 0, 'centre': 0, 'subcentre': 0, 'category': 0,
                    'subcategory': 0, 'local_subcategory': 0, 'update': 0, 'date': [2021, 2, 3, 4, 5, 6],
                    'sec2': None, 'pads': {}, 'compressed': False, 'observed': True, 'raw_ids': ids,
                    'raw_data': (bits.to_bytes() + b'\0\0').hex(), 'nsub': 1}
            msg, _t = bufrgen.write_message(spec)
            if msg.find(b'BUFR', 1) < 0:
                out.append({'ref': 'synop:%d:mtwin%d-v%d' % (seed, i, v), 'hex': msg.hex(), 'src': 'operator',
                            'opkind': 'marker-twin', 'twin': 'm%d:%d' % (seed, i)})
    # compressed / multi-subset variants of the same programs: produced by the library's own
    # (interpreting) encoder from the decoded values, in a pristine child each; they carry no ground
    # truth and serve the differential oracles only (history vs fresh, compiled vs interpreted)
    base = [e for k, e in enumerate(out) if (k % 2 == 0 or e['opkind'].endswith('-data-twin')) and
            (not e.get('twin') or e['twin'].startswith('d'))]
    res = core.pmap('compress_variant', [{'hex': e['hex'], 'seed': seed + k} for k, e in enumerate(base)], limit=120)
    for e, (st, r) in zip(base, res):
        if st == 'ok' and r:
            raw = bytes.fromhex(r['hex'])
            if raw.find(b'BUFR', 1) < 0 and len(raw) <= MAX_MSG:
                # same descriptor list, compressed: one twin group with its uncompressed origin, so that a
                # compiled template cached for the one is executed on the other
                if not e.get('twin'):
                    e['twin'] = 'z' + e['ref']
                out.append({'ref': e['ref'] + ':c%d' % r['nsub'], 'hex': r['hex'], 'src': 'operator',
                            'opkind': e['opkind'] + '-compressed', 'twin': e['twin']})
    # uncompressed MULTI-SUBSET variants: the subsets are the data contents of two or three data twins
    # (same program, other replication factors / bitmap arrangements / values), so the layout differs from
    # subset to subset; made by the library's interpreting encoder in a pristine child, no ground truth
    groups = {}
    for e in out:
        if e.get('twin', '').startswith('d') and 'compressed' not in e['opkind']:
            groups.setdefault(e['twin'], []).append(e)
    jobs = []
    for tw in sorted(groups):
        g = groups[tw]
        if len(g) >= 2:
            pick = rng.sample(g, min(len(g), rng.choice([2, 2, 3])))
            jobs.append((tw, g[0], [x['hex'] for x in pick]))
    # ... and the same subsets COMPRESSED where the library's encoder accepts them (subsets whose bitmaps or
    # values differ but whose structure is the same)
    jobs = [(tw, e0, hx, False) for tw, e0, hx in jobs] + [(tw, e0, hx, True) for tw, e0, hx in jobs]
    res = core.pmap('merge_variant', [{'hexes': hx, 'compressed': c} for _tw, _e, hx, c in jobs], limit=120)
    for (tw, e0, hx, c), (st, r) in zip(jobs, res):
        if st == 'ok' and r:
            raw = bytes.fromhex(r['hex'])
            if raw.find(b'BUFR', 1) < 0 and len(raw) <= MAX_MSG:
                out.append({'ref': e0['ref'] + ':m%d%s' % (len(hx), 'c' if c else ''), 'hex': r['hex'], 'src': 'operator',
                            'opkind': e0['opkind'].replace('-data-twin', '') + '-multi-subset' +
                            ('-compressed' if c else ''), 'twin': tw})
    return out


def _merge_variant(arg):
    from pybufrkit.decoder import Decoder
    from pybufrkit.encoder import Encoder
    from pybufrkit.renderer import FlatJsonRenderer
    from sim.observe import quiet_std
    quiet_std()
    try:
        datas = [FlatJsonRenderer().render(Decoder().process(bytes.fromhex(h), wire_template_data=False))
                 for h in arg['hexes']]
        data = datas[0]
        data[-3][2] = len(datas)
        data[-3][4] = bool(arg.get('compressed'))
        data[-2][2] = [d[-2][2][0] for d in datas]
    except Exception:
        return None
    # by the interpreting encoder; if that one refuses, by the compiling one (the two paths are supposed
    # to be interchangeable - a variant only one of them can make is exactly what C08 wants to see)
    for kw in ({}, {'compiled_template_cache_max': 2}):
        try:
            out = Encoder(**kw).process(json_copy(data), wire_template_data=False)
            raw = bytes(out.serialized_bytes)
        except Exception:
            continue
        for kw2 in ({}, {'compiled_template_cache_max': 2}):
            try:
                Decoder(**kw2).process(raw)
                return {'hex': raw.hex(), 'by': 'compiled' if (kw or kw2) else 'interpreted'}
            except Exception:
                continue
    return None


def json_copy(x):
    import copy
    return copy.deepcopy(x)


core.register('merge_variant', _merge_variant)


def table_d_messages(seed, n):
    """one message per sampled (version >= 19, Table D sequence): the sequence alone as template, data
    = sparse random bits (so that delayed replication factors stay small), uncompressed, one subset.
    No ground truth - programs for the differential oracles (compiled vs interpreted, history vs fresh)."""
    rng = random.Random(seed)
    out = []
    if n < 0:
        # the complete sweep: every DISTINCT (sequence id, full expansion with element definitions) of
        # every bundled Table D of versions >= 19, each with three data contents (all-zero, sparse, less
        # sparse) kept as one twin group, so that one compiled template runs on all three
        progs = distinct_table_d_programs()
        todo = [(v, sid, [0.0, 0.02, 0.06]) for (v, sid) in progs]
    else:
        vs = [v for v in bufrgen.table_versions() if v >= 19]
        todo = []
        for i in range(n):
            v = rng.choice(vs)
            _b, d = bufrgen.load_tables(v)
            todo.append((v, rng.choice(sorted(d)), [rng.choice([0.0, 0.02, 0.06])]))
        # a fifth of the sample from the sequences that use a replication factor other than 031001 / 031002
        # (031000, 031011, 031012: delayed repetition) - rare in Table D, and a sample of all sequences would
        # hardly ever meet one; each with the all-zero content (every replication executed zero times) and a sparse one
        rare = _rare_factor_sequences()
        for j in range(min(len(rare), max(1, n // 5))):
            v, sid = rare[rng.randrange(len(rare))]
            todo[j] = (v, sid, [0.0, 0.02])
    for i, (v, sid, p1s) in enumerate(todo):
        for p1 in p1s:
            length = rng.choice([400, 1500, 3000])
            if n < 0 and p1 == 0.0:
                length = 5800           # every sequence fits when all replication factors are zero
            data = bytes(sum((1 << k) for k in range(8) if rng.random() < p1) for _ in range(length))
            spec = {'edition': rng.choice([3, 4]), 'version': v, 'local_version': 0, 'centre': 0, 'subcentre': 0,
                    'category': 0, 'subcategory': 0, 'local_subcategory': 0, 'update': 0, 'date': [2021, 2, 3, 4, 5, 6],
                    'sec2': None, 'pads': {}, 'compressed': False, 'observed': True, 'raw_ids': [sid],
                    'raw_data': data.hex(), 'nsub': 1}
            msg, _t = bufrgen.write_message(spec)
            if msg.find(b'BUFR', 1) < 0 and len(msg) <= MAX_MSG:
                ent = {'ref': 'tabled:%d:%d:v%d:%06d%s' % (seed, i, v, sid,
                                                          ':p%d' % int(p1 * 100) if (n < 0 or len(p1s) > 1) else ''),
                       'hex': msg.hex(), 'src': 'operator', 'opkind': 'table-d-sequence'}
                if n < 0 or len(p1s) > 1:
                    ent['twin'] = 'dt%d:%06d' % (v, sid)
                out.append(ent)
    return out


_TABLE_D_PROGRAMS = []
_RARE_FACTOR = []


def _rare_factor_sequences():
    if not _RARE_FACTOR:
        for v, sid in distinct_table_d_programs():
            _b, d = bufrgen.load_tables(v)

            def flat(x, depth=0):
                o = []
                for m in d.get(x, []):
                    if m // 100000 == 3 and depth < 8:
                        o += flat(m, depth + 1)
                    else:
                        o.append(m)
                return o
            if any(m in (31000, 31011, 31012) for m in flat(sid)):
                _RARE_FACTOR.append((v, sid))
    return _RARE_FACTOR


def distinct_table_d_programs():
    """[(version, sequence id)]: one representative (lowest version) per distinct full expansion"""
    if not _TABLE_D_PROGRAMS:
        import json as _json
        seen = {}

        def expand(d, b, sid, depth=0):
            o = []
            for x in d.get(sid, []):
                f = x // 100000
                if f == 3:
                    o.append(['S', x, expand(d, b, x, depth + 1) if depth < 8 else []])
                elif f == 0:
                    o.append(['E', x, list(b.get(x, (None,) * 5)[1:])])
                else:
                    o.append(['O', x])
            return o
        for v in [v for v in bufrgen.table_versions() if v >= 19]:
            b, d = bufrgen.load_tables(v)
            for sid in sorted(d):
                key = (sid, _json.dumps(expand(d, b, sid)))
                if key not in seen:
                    seen[key] = (v, sid)
        _TABLE_D_PROGRAMS.extend(sorted(seen.values()))
    return _TABLE_D_PROGRAMS


def _compress_variant(arg):
    from pybufrkit.decoder import Decoder
    from pybufrkit.encoder import Encoder
    from pybufrkit.renderer import FlatJsonRenderer
    from pybufrkit.descriptors import ElementDescriptor
    from sim.observe import quiet_std
    quiet_std()
    rng = random.Random(arg['seed'])
    try:
        m = Decoder().process(bytes.fromhex(arg['hex']), wire_template_data=False)
    except Exception:
        return None
    data = FlatJsonRenderer().render(m)
    vals = data[-2][2][0]
    ds = m.template_data.value.decoded_descriptors_all_subsets[0]
    nsub = rng.choice([1, 2, 2, 3])
    for attempt in (0, 1):
        subsets = [list(vals)]
        for _ in range(nsub - 1):
            v2 = list(vals)
            if attempt == 0:
                for k, (d, v) in enumerate(zip(ds, vals)):
                    if type(d) is ElementDescriptor and d.X not in (31, 33) and d.X > 9 and d.nbits > 1 and \
                            isinstance(v, (int, float)) and 'TABLE' not in d.unit and rng.random() < 0.3:
                        v2[k] = None
            subsets.append(v2)
        data[-3][2] = nsub
        data[-3][4] = True
        data[-2][2] = subsets
        for kw in ({}, {'compiled_template_cache_max': 2}):       # either path may make it (see _merge_variant)
            try:
                out = Encoder(**kw).process(json_copy(data), wire_template_data=False)
                raw = bytes(out.serialized_bytes)
            except Exception:
                continue
            for kw2 in ({}, {'compiled_template_cache_max': 2}):
                try:
                    Decoder(**kw2).process(raw)
                    return {'hex': raw.hex(), 'nsub': nsub}
                except Exception:
                    continue
    return None


core.register('compress_variant', _compress_variant)


_TWINS = []


def _collision_elements():
    """(element id, version a, version b) where nbits/scale/ref differ between bundled versions"""
    if not _TWINS:
        vs = bufrgen.table_versions()
        seen = {}
        for v in vs:
            b, _ = bufrgen.load_tables(v)
            for eid, info in b.items():
                if (eid // 1000) in (0, 31, 33) or info[4] > 64 or info[1] == bufrgen.STRING_UNIT:
                    continue
                seen.setdefault(eid, {}).setdefault(tuple(info[2:5]), []).append(v)
        for eid in sorted(seen):
            groups = sorted(seen[eid].items())
            if len(groups) > 1:
                for (_pa, va), (_pb, vb) in zip(groups, groups[1:]):
                    _TWINS.append((eid, va[-1], vb[0]))
    return _TWINS


# ----------------------------------------------------------------------------
def classify(entry):
    """message class used by the abstract run shapes"""
    raw = bytes.fromhex(entry['hex'])
    w = bufrgen.walk(raw)
    emb = raw.find(b'BUFR', 1) >= 0
    emb7 = raw.find(b'7777', 0, len(raw) - 4) >= 0
    return '%s-e%d%s%s%s%s%s%s' % (entry['src'][0], w['edition'], 'c' if w['compressed'] else 'u',
                                   '2' if 2 in w['sections'] else '', 'B' if emb else '', 'S' if emb7 else '',
                                   # D: a table-definition message (NCEP layout); P: category 11, any other template
                                   ('D' if 300004 in w['ids'] else 'P') if w['category'] == 11 else '',
                                   'L' if len(raw) > 60000 else '')


def admit_all(entries, want_values=False):
    """Decode each entry alone in a pristine child. -> (admitted, rejected, mismatches)"""
    res = core.pmap('admit', [{'hex': e['hex'], 'values': want_values or ('truth' in e)} for e in entries],
                    limit=120)
    admitted, rejected, mismatches = [], [], []
    for e, (st, r) in zip(entries, res):
        if st != 'ok':
            raise core.HarnessError('admission failed for %s: %s' % (e['ref'], r))
        if not r['ok']:
            rejected.append({'ref': e['ref'], 'error': r.get('full_error') or r.get('info_error'), 'hex': e['hex'],
                             'full_ok': 'full' in r, 'info_ok': 'info' in r, 'src': e['src'],
                             'has_truth': 'truth' in e, 'twin': e.get('twin'), 'opkind': e.get('opkind')})
            continue
        e = dict(e)
        e['adm'] = r
        e['cls'] = classify(e)
        if 'truth' in e:
            mm = compare_truth(e['truth'], r)
            if mm:
                mismatches.append({'ref': e['ref'], 'mismatch': mm})
                continue
        r.pop('values', None)
        r.pop('ids', None)
        r.pop('attrs', None)
        admitted.append(e)
    return admitted, rejected, mismatches


def close(a, b):
    if a is None or b is None:
        return a is None and b is None
    if isinstance(a, (int, float)) and isinstance(b, (int, float)):
        return abs(a - b) <= 1e-9 * max(1.0, abs(a), abs(b))
    return a == b


def compare_truth(truth, adm):
    """ground truth by construction vs the library's lone decode (a C01-class sanity check)"""
    hdr = adm['header']
    for k, v in truth['header'].items():
        if k in hdr and hdr[k] != v:
            return 'header %s: wrote %r, decoded %r' % (k, v, hdr[k])
    vals = adm.get('values')
    if vals is None:
        return None
    if len(vals) != len(truth['subsets']):
        return 'subset count %d != %d' % (len(vals), len(truth['subsets']))
    for si, (got, exp) in enumerate(zip(vals, truth['subsets'])):
        if len(got) != len(exp):
            return 'subset %d: %d values decoded, %d written' % (si, len(got), len(exp))
        for vi, (g, (eid, raw, kind)) in enumerate(zip(got, exp)):
            info = truth['infos'][str(eid)]
            if kind == 's':
                g = bytes.fromhex(g['hex']) if isinstance(g, dict) else g
                if g != bytes.fromhex(raw):
                    return 'subset %d value %d (%06d): %r != %r' % (si, vi, eid, g, bytes.fromhex(raw))
            else:
                ev = bufrgen.expected_value(info, raw)
                if not close(g, ev):
                    return 'subset %d value %d (%06d): decoded %r, expected %r' % (si, vi, eid, g, ev)
    return None
