"""
observe -- the only module that touches pybufrkit objects. Everything here runs inside a
forked child; results are plain JSON values (digests, short strings), never objects.
"""
import hashlib
import io
import json
import os
import sys
import traceback

from sim import core  # noqa: F401  (puts VERIF_REPO first on sys.path)


def _h(x):
    return hashlib.sha1(x if isinstance(x, bytes) else x.encode('utf-8', 'backslashreplace')).hexdigest()[:16]


def canon(v):
    """process-independent canonical text of a decoded value structure"""
    return repr(v)


def exc_info(e):
    """type name, library-error flag, innermost pybufrkit frame as file:function"""
    from pybufrkit.errors import PyBufrKitError
    site = None
    tb = e.__traceback__
    frames = traceback.extract_tb(tb)
    # a StopIteration leaking into a generator is re-raised by the interpreter as RuntimeError:
    # the interesting frames are those of the original exception
    cause = e.__cause__ or e.__context__
    if isinstance(e, RuntimeError) and isinstance(cause, StopIteration):
        frames = traceback.extract_tb(cause.__traceback__)
    for fr in frames:
        fn = fr.filename.replace('\\', '/')
        if '/pybufrkit/' in fn:
            site = '%s:%s' % (os.path.basename(fn), fr.name)
    outer = None
    for fr in frames:
        fn = fr.filename.replace('\\', '/')
        if '/pybufrkit/' in fn:
            outer = '%s:%s' % (os.path.basename(fn), fr.name)
            break
    tname = type(e).__name__
    if isinstance(e, RuntimeError) and isinstance(cause, StopIteration):
        tname = 'StopIteration'
    if isinstance(e, RecursionError):
        # where the interpreter's recursion limit strikes depends on how deep the caller already was (a
        # pool worker sits deeper than a direct child): not part of a replayable trace
        site = None
    return {'type': tname, 'lib': isinstance(e, PyBufrKitError), 'site': site, 'entry': outer,
            'msg': str(e)[:200]}


def digest_template_data(td):
    vals = _h(canon(td.decoded_values_all_subsets))
    labels = _h(canon([[str(d) for d in ds] for ds in td.decoded_descriptors_all_subsets]))
    links = _h(canon([sorted(l.items()) for l in td.bitmap_links_all_subsets]))
    return {'v': vals, 'l': labels, 'k': links}


def section_params(m, upto=3):
    """[[section index, name, canonical value], ...] for sections with index <= upto"""
    out = []
    for s in m.sections:
        idx = s.get_metadata('index')
        if idx > upto:
            continue
        for p in s:
            if p.type == 'template_data':
                continue
            out.append([idx, p.name, canon(p.value)])
    return out


def digest_message(m, full):
    d = {'b': _h(bytes(m.serialized_bytes)), 'n': len(m.serialized_bytes)}
    if full:
        d.update(digest_template_data(m.template_data.value))
    return d


def header_of(m):
    """a few header fields, for filter / metadata checks"""
    out = {}
    for s in m.sections:
        idx = s.get_metadata('index')
        if idx > 3:
            continue
        for p in s:
            if p.name not in out:
                out[p.name] = p.value if not isinstance(p.value, bytes) else p.value.decode('latin-1')
    return out


STEP_BUDGET = {'n': 0, 'max': 2000000, 'installed': False}


def install_step_budget(maximum=None):
    """Deterministic bound on the work of one run (or one operation of a history): call-through
    counters around the two functions every replication iteration passes through - the interpreting
    coder's `process_members` and the compiled executor's `process_statements`. Damaged input can make
    the library loop for minutes (a garbage replication count over an empty member list: 90 million
    iterations seen); no property speaks about time, and a wall-clock kill would not replay."""
    from sim.core import StepBudgetExceeded
    B = STEP_BUDGET
    if maximum is not None:
        B['max'] = maximum
    B['n'] = 0
    if B['installed']:
        return
    B['installed'] = True
    import pybufrkit.coder as coder
    import pybufrkit.templatecompiler as tc
    if hasattr(coder.Coder, 'process_members'):
        inner = coder.Coder.process_members

        def process_members(self, state, bit_operator, members):
            B['n'] += 1
            if B['n'] > B['max']:
                raise StepBudgetExceeded()
            return inner(self, state, bit_operator, members)
        coder.Coder.process_members = process_members
    if hasattr(tc, 'process_statements'):
        inner_s = tc.process_statements

        def process_statements(c, state, bit_operator, statements):
            B['n'] += 1
            if B['n'] > B['max']:
                raise StepBudgetExceeded()
            return inner_s(c, state, bit_operator, statements)
        tc.process_statements = process_statements


def reset_step_budget():
    STEP_BUDGET['n'] = 0


def quiet_std():
    """capture python-level stdout/stderr of the library (it prints skip notices to stderr)"""
    so, se = sys.stdout, sys.stderr
    sys.stdout, sys.stderr = io.StringIO(), io.StringIO()
    return so, se


def admit(arg):
    """Decode one message alone in this pristine process: full and info-only."""
    from pybufrkit.decoder import Decoder
    raw = bytes.fromhex(arg['hex'])
    quiet_std()
    out = {}
    try:
        m = Decoder().process(raw)
        out['full'] = digest_message(m, True)
        out['full']['params'] = _h(json.dumps(section_params(m, 5)))
        out['nsub'] = m.n_subsets.value
        out['key'] = canon(tuple(m.table_group_key[1:]))
        if arg.get('values'):
            out['values'] = json.loads(json.dumps(m.template_data.value.decoded_values_all_subsets,
                                                  default=lambda b: {'hex': b.hex()}))
            out['ids'] = [[str(d) for d in ds] for ds in m.template_data.value.decoded_descriptors_all_subsets]
            out['attrs'] = [[[getattr(d, 'unit', None), getattr(d, 'scale', None),
                              getattr(d, 'refval', None), getattr(d, 'nbits', None)] for d in ds]
                            for ds in m.template_data.value.decoded_descriptors_all_subsets]
        ok = True
    except Exception as e:
        out['full_error'] = exc_info(e)
        ok = False
    try:
        mi = Decoder().process(raw, info_only=True)
        out['info'] = {'params': section_params(mi), 'b': _h(bytes(mi.serialized_bytes)),
                       'n': len(mi.serialized_bytes)}
        out['header'] = header_of(mi)
    except Exception as e:
        out['info_error'] = exc_info(e)
        ok = False
    out['ok'] = ok
    return out
