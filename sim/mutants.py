"""
mutants -- sensitivity self-test: break a property on purpose in a scratch copy of the tree under
test and confirm that the check registered for it raises a VIOLATION within its quick budget, that
the violation was minimised into a replay file, and that replaying the file in a fresh process
reproduces it. The unmutated scratch copy must stay silent.

Two sources of changes:
  * CATALOGUE below: hand-written single-site mutants (exact string replacement);
  * /verif/seeded/<id>/patch.diff: changes written by independent sub-agents that saw only the
    property text (kept with their demonstration and meta.json).
Scratch copies live under $TMPDIR (outside /repo and /verif) and are removed after each mutant.
"""
import glob
import json
import os
import shutil
import subprocess
import sys
import tempfile
import time

from sim import core

D = 'pybufrkit/decoder.py'
T = 'pybufrkit/tables.py'
TC = 'pybufrkit/templatecompiler.py'
DP = 'pybufrkit/dataprocessor.py'
MQ = 'pybufrkit/mdquery.py'
B = 'pybufrkit/bufr.py'
TD = 'pybufrkit/templatedata.py'
CO = 'pybufrkit/coder.py'
BO = 'pybufrkit/bitops.py'
ER = 'pybufrkit/errors.py'

CATALOGUE = [
    # ---- C06
    {'id': 'm-c06-only-refvals-reset', 'props': ['C06'], 'file': CO,
     'old': "        # subset so we are not saving them.\n        self.reset_template_state()\n",
     'new': "        # subset so we are not saving them.\n        self.new_refvals = {}\n",
     'note': 'reverts the repair 6213085: only the 203YYY reference values are reset between subsets'},
    {'id': 'm-c06-links-shared', 'props': ['C06'], 'file': CO,
     'old': "            self.bitmap_links_all_subsets = [{} for _ in range(n_subsets)]\n",
     'new': "            self.bitmap_links_all_subsets = [{}] * n_subsets\n",
     'note': 'uncompressed subsets share one attribute-link dictionary'},
    {'id': 'm-c06-back-references-kept', 'props': ['C06'], 'file': CO,
     'old': "        self.back_reference_boundary = 0\n        self.back_referenced_descriptors = None\n",
     'new': "        self.back_reference_boundary = 0\n        self.back_referenced_descriptors = getattr(self, 'back_referenced_descriptors', None)\n",
     'note': 'the cached back references of the previous subset survive the subset switch: needs a bitmap without '
             '235000 behind a layout that differs between subsets'},
    {'id': 'm-c06-encoder-value-index-kept', 'props': ['C06'], 'file': CO,
     'old': "        # Index to value is only needed for encoder\n        self.idx_value = 0\n",
     'new': "        # Index to value is only needed for encoder\n",
     'extra': [{'file': 'pybufrkit/encoder.py', 'old': "                state.idx_value = 0\n", 'new': "                pass\n"}],
     'note': 'the encoder goes on reading values where the previous subset ended (both resets removed; either alone is equivalent)'},
    {'id': 'm-c06-221-count-kept', 'props': ['C06'], 'file': CO,
     'old': "        self.data_not_present_count = 0  # 221\n",
     'new': "        self.data_not_present_count = getattr(self, 'data_not_present_count', 0)  # 221\n",
     'note': 'an unused 221YYY count is carried into the next subset'},
    # ---- reverts of the repairs of round 8 (the pinned histories in regress/ must raise the alarm again)
    {'id': 'm-r8-c12-total-length-unchecked', 'props': ['C12'], 'file': D,
     'old': "            if not info_only and not ignore_value_expectation \\\n                    and len(bufr_message.serialized_bytes) != bufr_message.length.value:\n",
     'new': "            if False:\n",
     'note': 'reverts 68d6a2f: the octets the sections cover are not compared with the declared total length'},
    {'id': 'm-r8-c08-203000-compile-time-only', 'props': ['C08'], 'file': TC,
     'old': "        super(CompilerState, self).cancel_new_refvals()\n        self.add_statement(StateMethodCall(get_func_name()))\n",
     'new': "        super(CompilerState, self).cancel_new_refvals()\n",
     'note': 'reverts 0d03e7d: 203000 is applied while compiling and not recorded for the run time'},
    {'id': 'm-r8-c08-204-not-recorded', 'props': ['C08'], 'file': TC,
     'old': "            'nbits_of_associated': list(state.nbits_of_associated),\n",
     'new': "",
     'note': 'reverts aa29e5f: the associated field widths in force are not recorded with a marker call'},
    {'id': 'm-r8-c08-bitmap-of-zero-bits', 'props': ['C08'], 'file': D,
     'old': "        if state.n_031031 == 0:\n            # The bits stand under a replication that was not executed: no bitmap is defined\n            return []\n",
     'new': "",
     'note': 'reverts 334076d (decoder side): a compiled template defines a bitmap from zero bits'},
    {'id': 'm-r8-c17-multi-dot', 'props': ['C17'], 'file': MQ,
     'old': "metadata_expr[1:].split('.', 1)", 'new': "metadata_expr[1:].split('.')",
     'note': 'reverts 6b5f251: an expression with more than one dot raises ValueError'},
    {'id': 'm-r8-c11-category-11-assert', 'props': ['C11'], 'file': DP,
     'old': "        except AssertionError as e:\n", 'new': "        except ZeroDivisionError as e:\n",
     'note': 'reverts b517414: an ordinary template under data category 11 aborts the scan with AssertionError'},
    {'id': 'm-r8-c13-wired-flag-set-first', 'props': ['C13'], 'file': TD,
     'old': "        if self._is_wired:\n            return\n\n        try:\n",
     'new': "        if self._is_wired:\n            return\n        self._is_wired = True\n\n        try:\n",
     'note': 'reverts bba653a in part: the wired flag is set before the work, so a second wire() after a failed one returns silently'},
    # ---- C11
    {'id': 'm-c11-advance-by-one', 'props': ['C11'], 'file': D,
     'old': "            idx_start += len(bufr_message.serialized_bytes)\n",
     'new': "            idx_start += 1 if not info_only else len(bufr_message.serialized_bytes)\n",
     'note': 'full scan advances by one byte after a message: a start signature inside a body begins a message'},
    {'id': 'm-c11-info-span-decoded', 'props': ['C11', 'C17'], 'file': D,
     'old': "                bufr_message.serialized_bytes = s[idx_start: idx_start + bufr_message.length.value]\n",
     'new': "                pass\n",
     'note': 'metadata-only scanning keeps the decoded span (sections 0-3) as the message bytes'},
    {'id': 'm-c11-filter-ignored-info', 'props': ['C11'], 'file': D,
     'old': "            if matched:\n                yield bufr_message\n",
     'new': "            if matched or info_only:\n                yield bufr_message\n",
     'note': 'filter result ignored when scanning metadata-only'},
    {'id': 'm-c11-info-length-off-by-4', 'props': ['C11', 'C17'], 'file': D,
     'old': "                bufr_message.serialized_bytes = s[idx_start: idx_start + bufr_message.length.value]\n",
     'new': "                bufr_message.serialized_bytes = s[idx_start: idx_start + bufr_message.length.value - 4]\n",
     'note': 'metadata-only scanning drops the stop signature from the message bytes'},
    {'id': 'm-c11-find-after-garbage', 'props': ['C11'], 'file': D,
     'old': "        idx_start = s.find(MESSAGE_START_SIGNATURE, idx_start)\n        if idx_start < 0:\n            return\n",
     'new': "        idx_found = s.find(MESSAGE_START_SIGNATURE, idx_start)\n        if idx_found < 0:\n            return\n"
            "        idx_start = idx_found if (idx_found == idx_start or s[idx_found - 1:idx_found] != b'F') else idx_found + 1\n",
     'note': 'a message directly preceded by a separator ending in F (e.g. BUF) is missed'},
    # ---- C12
    {'id': 'm-c12-continue-first-only', 'props': ['C12'], 'file': D,
     'old': "            if not continue_on_error:\n                raise e\n",
     'new': "            if not continue_on_error:\n                raise e\n            continue_on_error = False\n",
     'note': 'continue-on-error honoured only for the first failure'},
    {'id': 'm-c12-skip-plus-two', 'props': ['C12'], 'file': D,
     'old': "        if 2 <= edition <= 4 and nbytes >= 8 and idx_start + nbytes <= len(s):\n            return nbytes\n",
     'new': "        if 2 <= edition <= 4 and nbytes >= 8 and idx_start + nbytes <= len(s):\n            return nbytes + 2\n",
     'note': 'skipping a damaged message advances two octets too far'},
    {'id': 'm-c12-no-conversion-of-foreign-errors', 'props': ['C12'], 'file': D,
     'old': "        except PyBufrKitError:\n            raise\n        except Exception as e:\n",
     'new': "        except PyBufrKitError:\n            raise\n        except ZeroDivisionError as e:\n",
     'note': 'reverts the repair 7f10517: IndexError / NotImplementedError under length damage escape again '
             '(the default seed does not reach them; the regression corpus does)'},
    # (m-c12-missing-stop-signature-tolerated - the decoder supplying a missing 7777 - was dropped in round 9: since the
    #  repair 68d6a2f the octets the sections cover must equal the declared total length, so that change is harmless)
    {'id': 'm-c12-no-stop-signature-check', 'props': ['C12'], 'file': D,
     'old': "            if parameter.expected is not None and parameter.value != parameter.expected:\n",
     'new': "            if parameter.expected is not None and parameter.value != parameter.expected and section.get_metadata('index') != 5:\n",
     'note': 'stop signature no longer validated'},
    {'id': 'm-c12-overrun-tolerated', 'props': ['C12'], 'file': D,
     'old': "            elif nbits_unread < 0:\n", 'new': "            elif nbits_unread < -8 * 64:\n",
     'note': 'declared section length may be overrun by up to 64 octets'},
    {'id': 'm-c12-swallow-everything', 'props': ['C12'], 'file': D,
     'old': "        except PyBufrKitError as e:\n            if not continue_on_error:\n                raise e\n",
     'new': "        except PyBufrKitError as e:\n            if not continue_on_error and not info_only:\n                raise e\n",
     'note': 'metadata-only scanning swallows failures even without continue-on-error'},
    {'id': 'm-c12-skip-by-one-octet', 'props': ['C12'], 'file': D,
     'old': "        if 2 <= edition <= 4 and nbytes >= 8 and idx_start + nbytes <= len(s):\n            return nbytes\n",
     'new': "        if 2 <= edition <= 4 and nbytes >= 8 and idx_start + nbytes <= len(s):\n            return 1\n",
     'note': 'reverts the repair 1bc80ab in effect: after a failed message the search resumes at the next octet, a start '
             'signature held by the damaged message begins a message'},
    # ---- C17
    {'id': 'm-c17-last-match', 'props': ['C17'], 'file': MQ,
     'old': "        for section in sections:\n            for parameter in section:",
     'new': "        for section in reversed(sections):\n            for parameter in section:",
     'note': '%name returns the value of the LAST section holding it'},
    {'id': 'm-c17-index-off-by-one', 'props': ['C17'], 'file': MQ,
     'old': "                section_index = int(section_index)\n",
     'new': "                section_index = int(section_index)\n                section_index = section_index + 1 if section_index > 4 else section_index\n",
     'note': '%5.name looks at section 6'},
    {'id': 'm-c17-nonnumeric-index-accepted', 'props': ['C17'], 'file': MQ,
     'old': "                raise MetadataExprParsingError('Invalid section index: {}'.format(section_index))\n",
     'new': "                section_index = None\n",
     'note': 'a non-numeric section index silently means "any section"'},
    {'id': 'm-c17-info-reads-section4-length', 'props': ['C17'], 'file': B,
     'old': "            new_config['parameters'] = config['parameters'][:parameter_types.index(PARAMETER_TYPE_TEMPLATE_DATA)]\n",
     'new': "            new_config['parameters'] = config['parameters'][:parameter_types.index(PARAMETER_TYPE_TEMPLATE_DATA)]\n"
            "            new_config['end_of_message'] = False\n",
     'note': 'metadata-only decode goes on to read section 5 (fails on damaged stop signature)'},
    # ---- C13
    {'id': 'm-c13-evict-returns-stale', 'props': ['C13'], 'file': T,
     'old': "                for _ in range(len(self._groups) + 1 - MAXIMUM_NUMBER_OF_CACHED_TABLE_GROUPS):\n                    self._groups.popitem()\n",
     'new': "                for _ in range(len(self._groups) + 1 - MAXIMUM_NUMBER_OF_CACHED_TABLE_GROUPS):\n                    _k, _stale = self._groups.popitem()\n"
            "                if len(self._groups) == 0 and _k.wmo_tables_sn[:2] == table_group_key.wmo_tables_sn[:2]:\n"
            "                    self._groups[table_group_key] = _stale\n                    return _stale\n",
     'note': 'after evicting down to an empty cache the evicted group is re-used for the new key'},
    {'id': 'm-c13-wire-flag-never-set', 'props': ['C13'], 'file': TD,
     'old': "            raise\n        self._is_wired = True\n",
     'new': "            raise\n",
     'note': 'wire() twice duplicates the node tree'},
    {'id': 'm-c13-group-cached-before-d-loaded', 'props': ['C13'], 'file': T,
     'old': "            a = TableA(table_group_key)\n            b = TableB(table_group_key, self.extra_b_entries)\n            c = TableC(table_group_key)\n            r = TableR(table_group_key)\n            d = TableD(b, c, r, table_group_key, self.extra_d_entries)\n            self._groups[table_group_key] = BufrTableGroup(a, b, c, d, r)\n",
     'new': "            a = TableA(table_group_key)\n            b = TableB(table_group_key, self.extra_b_entries)\n            c = TableC(table_group_key)\n            r = TableR(table_group_key)\n            d = TableD.__new__(TableD)\n            d.descriptors = {}\n            self._groups[table_group_key] = BufrTableGroup(a, b, c, d, r)\n            d.__init__(b, c, r, table_group_key, self.extra_d_entries)\n",
     'note': 'table group is inserted into the cache before Table D is loaded: an I/O error leaves a half-built group'},
    {'id': 'm-c13-coder-remembers-new-refvals', 'props': ['C13'], 'file': CO,
     'old': "        self.new_refvals = {}  # 2 03 255 to conclude, not cancel\n",
     'new': "        self.new_refvals = CoderState._shared_refvals\n",
     'extra': [{'file': CO, 'old': "class CoderState(object):\n", 'new': "class CoderState(object):\n    _shared_refvals = {}\n"}],
     'note': '203YYY new reference values survive from one message to the next'},
    {'id': 'm-c13-normalize-memo-ignores-root', 'props': ['C13'], 'file': T,
     'old': "        if normalize:\n            wmo_tables_sn, local_tables_sn = normalize_tables_sn(\n                tables_root_dir,",
     'new': "        if normalize:\n            wmo_tables_sn, local_tables_sn = normalize_tables_sn(\n                DEFAULT_TABLES_DIR if cls._TABLE_GROUP_CACHE._groups else tables_root_dir,",
     'note': 'table version normalisation looks at the default root once anything is cached (visible only with a '
             'second tables root that lacks some versions)'},
    # ---- C08
    {'id': 'm-c08-key-without-table-group', 'props': ['C08'], 'file': TC,
     'old': "            tuple(template.original_descriptor_ids),\n            table_group.key,\n",
     'new': "            tuple(template.original_descriptor_ids),\n            table_group.key.tables_root_dir,\n",
     'note': 'compiled cache key ignores the table version: descriptor-list twins collide'},
    {'id': 'm-c08-key-without-definitions', 'props': ['C08'], 'file': TC,
     'old': "            TableGroupCacheManager.extra_entries_version()\n", 'new': "            0\n",
     'note': 'compiled cache key ignores in-stream definitions (the defect repaired by 70b0099)'},
    {'id': 'm-c08-state-properties-dropped-on-save', 'props': ['C08'], 'file': TC,
     'old': "            'state_properties': self.state_properties,\n", 'new': "            'state_properties': None,\n",
     'note': 'operator state of marker operators lost when a compiled template is saved'},
    {'id': 'm-c08-loop-repeat-frozen', 'props': ['C08'], 'file': TC,
     'old': "            if isinstance(statement.repeat, CoderMethodCall):\n                repeat = getattr(coder, statement.repeat.method_name)(state)\n",
     'new': "            if isinstance(statement.repeat, CoderMethodCall):\n                repeat = getattr(coder, statement.repeat.method_name)(state)\n"
            "                repeat = statement.__dict__.setdefault('_first_repeat', repeat) if repeat > 2 else repeat\n",
     'note': 'a delayed replication count > 2 is remembered from the first execution of a cached template'},
    {'id': 'm-c08-loaded-uses-default-group', 'props': ['C08'], 'file': TC,
     'old': "        TableGroupKey(*[(tuple(x) if isinstance(x, list) else x) for x in d['table_group_key']])\n    )\n",
     'new': "        TableGroupKey(*[(tuple(x) if isinstance(x, list) else x) for x in d['table_group_key']])\n    ) if d['table_group_key'][2] else TableGroupCacheManager.get_table_group()\n",
     'note': 'a re-loaded template without local tables resolves its descriptors in the default table group'},
    # ---- C20
    {'id': 'm-c20-no-invalidate', 'props': ['C20'], 'file': D,
     'old': "                    _, b_entries, d_entries = BufrTableDefinitionProcessor().process(bufr_message)\n                    TableGroupCacheManager.invalidate()\n",
     'new': "                    _, b_entries, d_entries = BufrTableDefinitionProcessor().process(bufr_message)\n",

     'note': 'table groups cached before the definition keep the old meaning'},
    {'id': 'm-c20-replace-instead-of-update', 'props': ['C20'], 'file': T,
     'old': "        self.extra_b_entries.update(b_entries)\n",
     'new': "        self.extra_b_entries.clear()\n        self.extra_b_entries.update(b_entries)\n",
     'note': 'a second definition message forgets the elements of the first'},
    {'id': 'm-c20-scale-sign-ignored', 'props': ['C20'], 'file': DP,
     'old': "                (1 if next_value().strip() == '+' else -1) * int(next_value().strip()),\n                (1 if next_value().strip() == '+' else -1) * int(next_value().strip()),\n",
     'new': "                (1 if next_value().strip() in '+-' else -1) * int(next_value().strip()),\n                (1 if next_value().strip() == '+' else -1) * int(next_value().strip()),\n",
     'note': 'sign of the scale ignored'},
    {'id': 'm-c20-unit-not-stripped', 'props': ['C20'], 'file': DP,
     'old': "                next_value().strip(),\n                (1 if", 'new': "                next_value().lstrip(),\n                (1 if",
     'note': 'unit keeps its blank padding: CCITT IA5 / CODE TABLE elements are decoded as numbers'},
    {'id': 'm-c20-extras-not-in-table-d', 'props': ['C20'], 'file': T,
     'old': "            d = TableD(b, c, r, table_group_key, self.extra_d_entries)\n",
     'new': "            d = TableD(b, c, r, table_group_key, self.extra_d_entries if len(self.extra_d_entries) < 3 else {})\n",
     'note': 'more than two defined sequences: none is registered'},
    {'id': 'm-c20-only-first-definition', 'props': ['C20'], 'file': D,
     'old': "            else:\n                if (bufr_message.data_category.value == DATA_CATEGORY_DEFINE_BUFR_TABLES\n                        and bufr_message.n_subsets.value > 0):\n",
     'new': "            else:\n                if (bufr_message.data_category.value == DATA_CATEGORY_DEFINE_BUFR_TABLES\n                        and bufr_message.n_subsets.value > 0 and not TableGroupCacheManager.has_extra_entries()):\n",
     'note': 'only the first definition message of a process is applied'},
    {'id': 'm-c20-last-member-dropped', 'props': ['C20'], 'file': DP,
     'old': "                [next_value() for i in range(next_value())]\n",
     'new': "                [next_value() for i in range(next_value())][:7]\n",
     'note': 'sequences with more than seven members are cut'},
]


def make_scratch(repo):
    base = tempfile.mkdtemp(prefix='verif-mut-')
    shutil.copytree(os.path.join(repo, 'pybufrkit'), os.path.join(base, 'pybufrkit'),
                    ignore=shutil.ignore_patterns('__pycache__', 'tables'), symlinks=True)
    os.symlink(os.path.join(repo, 'pybufrkit', 'tables'), os.path.join(base, 'pybufrkit', 'tables'))
    os.symlink(os.path.join(repo, 'tests'), os.path.join(base, 'tests'))
    return base


def apply_entry(base, ent):
    """-> None or reason why the mutant does not apply"""
    if 'patch' in ent:
        pr = subprocess.run(['git', 'apply', '--unsafe-paths', '--directory', base, ent['patch']], cwd='/',
                            stdout=subprocess.PIPE, stderr=subprocess.STDOUT)
        if pr.returncode != 0:
            pr = subprocess.run(['patch', '-p1', '-d', base, '-i', ent['patch']], stdout=subprocess.PIPE,
                                stderr=subprocess.STDOUT)
            if pr.returncode != 0:
                return 'patch does not apply: %s' % pr.stdout.decode()[-300:]
        return None
    for site in [ent] + ent.get('extra', []):
        p = os.path.join(base, site['file'])
        with open(p) as f:
            s = f.read()
        if s.count(site['old']) != 1:
            return 'site not found exactly once in %s (%d)' % (site['file'], s.count(site['old']))
        with open(p, 'w') as f:
            f.write(s.replace(site['old'], site['new']))
    return None


def seeded_entries():
    out = []
    for meta in sorted(glob.glob(os.path.join(core.VERIF_DIR, 'seeded', '*', 'meta.json'))):
        with open(meta) as f:
            m = json.load(f)
        out.append({'id': os.path.basename(os.path.dirname(meta)), 'props': m.get('expected_caught_by', [m['property']]),
                    'patch': os.path.join(os.path.dirname(meta), 'patch.diff'), 'note': m.get('needs', ''),
                    'seeded': True, 'known_missed': m.get('known_missed', False),
                    'neutralised_by': m.get('neutralised_by')})
    return out


def run_check(prop, base, tier='quick', seed=None):
    env = dict(os.environ)
    env['VERIF_REPO'] = base
    env['VERIF_REPLAY_DIR'] = os.path.join(base, 'replays')
    env['VERIF_EVIDENCE_DIR'] = os.path.join(base, 'evidence')
    env.pop('PYTHONHASHSEED', None)
    if seed is not None:
        env['VERIF_SEED'] = str(seed)
    t0 = time.time()
    pr = subprocess.run([os.path.join(core.VERIF_DIR, 'check'), prop, '--tier', tier], env=env, cwd=core.VERIF_DIR,
                        stdout=subprocess.PIPE, stderr=subprocess.STDOUT, timeout=3600)
    out = pr.stdout.decode()
    replays = [l.split('replay=')[1].strip() for l in out.splitlines() if l.startswith('VIOLATION ')]
    return pr.returncode, out, replays, time.time() - t0


def replay_ok(prop, base, path):
    env = dict(os.environ)
    env['VERIF_REPO'] = base
    env.pop('PYTHONHASHSEED', None)
    pr = subprocess.run([os.path.join(core.VERIF_DIR, 'check'), prop, '--replay', path], env=env, cwd=core.VERIF_DIR,
                        stdout=subprocess.PIPE, stderr=subprocess.STDOUT, timeout=600)
    return pr.returncode == 1 and 'expected signature reproduced' in pr.stdout.decode()


def main(ns):
    only = ns.only.split(',') if ns.only else None
    entries = CATALOGUE + seeded_entries()
    if only:
        entries = [e for e in entries if e['id'] in only or any(e['id'].startswith(o) for o in only) or
                   any(p in only for p in e['props'])]
    repo = core.REPO
    results = []
    t0 = time.time()
    # the unmutated scratch copy must stay silent
    if not only:
        base = make_scratch(repo)
        try:
            for prop in ('C06', 'C08', 'C11', 'C12', 'C13', 'C17', 'C20'):
                code, out, _r, dt = run_check(prop, base)
                print('baseline %-4s exit=%d (%.0fs)' % (prop, code, dt))
                sys.stdout.flush()
                if code != 0:
                    print(out[-1500:])
                    print('HARNESS-ERROR the unmutated scratch copy is not silent for %s' % prop)
                    return core.EXIT_HARNESS
        finally:
            shutil.rmtree(base, ignore_errors=True)
    def run_entry(ent):
        if ent.get('neutralised_by'):
            # a later repair of /repo made the library robust against this change: it no longer breaks the
            # property (its demonstration passes with the patch applied), so there is nothing to detect
            print('NEUTRAL %-40s %s' % (ent['id'], ent['neutralised_by'][:100]))
            return {'id': ent['id'], 'status': 'neutralised', 'why': ent['neutralised_by'], 'seeded': True}
        base = make_scratch(repo)
        try:
            why = apply_entry(base, ent)
            if why:
                print('STALE   %-40s %s' % (ent['id'], why))
                return {'id': ent['id'], 'status': 'stale', 'why': why}
            caught_by = []
            replayed = None
            detail = {}
            for prop in ent['props']:
                code, out, replays, dt = run_check(prop, base)
                detail[prop] = {'exit': code, 'wall_s': round(dt, 1), 'violations': len(replays)}
                if code == 1 and replays:
                    caught_by.append(prop)
                    if replayed is None:
                        replayed = replay_ok(prop, base, replays[0])
                elif code == 2:
                    detail[prop]['harness'] = out[-600:]
            status = 'killed' if caught_by else 'missed'
            print('%-7s %-40s by=%s replay_reproduces=%s %s' % (status.upper(), ent['id'], ','.join(caught_by) or '-',
                                                               replayed, json.dumps(detail)))
            sys.stdout.flush()
            return {'id': ent['id'], 'status': status, 'caught_by': caught_by, 'expected': ent['props'],
                    'replay_reproduces': replayed, 'detail': detail, 'note': ent.get('note'),
                    'seeded': bool(ent.get('seeded'))}
        finally:
            shutil.rmtree(base, ignore_errors=True)

    # VERIF_MUTANT_PARALLEL=n runs n changed trees at a time, each check with 16/n workers (the checks have
    # serial phases - plan generation, the oracle - so this roughly halves the wall time of the whole table)
    par = max(1, int(os.environ.get('VERIF_MUTANT_PARALLEL', '1')))
    if par > 1:
        os.environ['VERIF_JOBS'] = str(max(2, (os.cpu_count() or 16) // par))
        from concurrent.futures import ThreadPoolExecutor
        with ThreadPoolExecutor(max_workers=par) as ex:
            results = list(ex.map(run_entry, entries))
    else:
        results = [run_entry(e) for e in entries]
    killed = sum(1 for r in results if r['status'] == 'killed')
    missed = sum(1 for r in results if r['status'] == 'missed')
    stale = sum(1 for r in results if r['status'] == 'stale')
    d = os.path.join(core.VERIF_DIR, 'selftest')
    os.makedirs(d, exist_ok=True)
    path = os.path.join(d, 'mutants.json')
    for r in results:
        r['repo_hash'] = core.repo_hash()
        r['verif_commit'] = _verif_commit()
    if only and os.path.exists(path):
        # a partial run replaces the entries it re-ran and keeps the others (each entry says which tree and
        # which state of /verif it was obtained with)
        with open(path) as f:
            prev = json.load(f)
        done = dict((r['id'], r) for r in results)
        order = [e['id'] for e in CATALOGUE + seeded_entries()]
        merged = dict((r['id'], r) for r in prev.get('results', []))
        merged.update(done)
        allres = [merged[i] for i in order if i in merged]
    else:
        allres = results
    rep = {'killed': sum(1 for r in allres if r['status'] == 'killed'),
           'missed': sum(1 for r in allres if r['status'] == 'missed'),
           'stale': sum(1 for r in allres if r['status'] == 'stale'),
           'wall_s': round(time.time() - t0, 1), 'repo_hash': core.repo_hash(), 'results': allres}
    with open(path, 'w') as f:
        json.dump(rep, f, indent=1, sort_keys=True)
    print('mutants: %d killed, %d missed, %d stale (%.0fs)' % (killed, missed, stale, time.time() - t0))
    bad_replay = [r['id'] for r in results if r.get('status') == 'killed' and r.get('replay_reproduces') is False]
    if bad_replay:
        print('HARNESS-ERROR replay did not reproduce for: %s' % bad_replay)
        return core.EXIT_HARNESS
    unexpected = [r['id'] for r in results if r['status'] == 'missed' and not _known_missed(r['id'])]
    if unexpected or stale:
        return core.EXIT_VIOLATION if unexpected else core.EXIT_HARNESS
    return core.EXIT_OK


def _verif_commit():
    try:
        return subprocess.run(['git', '-C', core.VERIF_DIR, 'rev-parse', '--short', 'HEAD'], stdout=subprocess.PIPE,
                              stderr=subprocess.DEVNULL).stdout.decode().strip()
    except Exception:
        return None


def _known_missed(mid):
    p = os.path.join(core.VERIF_DIR, 'seeded', mid, 'meta.json')
    if os.path.exists(p):
        with open(p) as f:
            return bool(json.load(f).get('known_missed'))
    return False
