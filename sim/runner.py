"""
runner -- the generic check loop: pool -> plans -> pristine-fork execution -> oracle -> report.
"""
import json
import os
import random
import sys
import time

from sim import core, pool as poolmod


def build_pool(seed, tier, n_corpus=None, n_synth=None, n_ops=None, want_values=False, n_tabled=0):
    """Seeded sample of the corpus (stratified by file) plus synthetic messages, admitted."""
    rng = random.Random(core.derive_seed(seed, 'pool', 'sample', 0))
    corpus = poolmod.corpus_messages()
    if n_corpus is None:
        n_corpus = 220 if tier == 'quick' else len(corpus)
    if n_synth is None:
        n_synth = 160 if tier == 'quick' else 1200
    byfile = {}
    for e in corpus:
        byfile.setdefault(e['ref'].split('#')[0], []).append(e)
    chosen = []
    # first message of every file, then fill up round-robin from multi-message files
    for f in sorted(byfile):
        chosen.append(byfile[f][0])
    rest = [e for f in sorted(byfile) for e in byfile[f][1:]]
    rng.shuffle(rest)
    chosen.extend(rest[:max(0, n_corpus - len(chosen))])
    chosen = chosen[:max(n_corpus, 1)] if n_corpus < len(chosen) else chosen
    synth = poolmod.synthetic_messages(core.derive_seed(seed, 'pool', 'synth', 0) % (1 << 31), n_synth)
    if n_ops is None:
        n_ops = max(10, n_synth // 3)
    synth += poolmod.operator_messages(core.derive_seed(seed, 'pool', 'ops', 0) % (1 << 31), n_ops)
    if n_tabled:
        synth += poolmod.table_d_messages(core.derive_seed(seed, 'pool', 'tabled', 0) % (1 << 31), n_tabled)
        synth += poolmod.exhibit_messages()     # histsim checks only (C08, C13): recorded, unrepaired defects
    admitted, rejected, mismatches = poolmod.admit_all(chosen + synth, want_values=want_values)
    info = {'corpus': sum(1 for e in admitted if e['src'] == 'corpus'),
            'synthetic': sum(1 for e in admitted if e['src'] == 'synth'),
            'operator_templates': sum(1 for e in admitted if e['src'] == 'operator'),
            'table_d_sequences': sum(1 for e in admitted if e.get('opkind') == 'table-d-sequence'),
            'table_d_programs_distinct': len(set(e['ref'].split(':v')[1][:10] for e in admitted
                                                 if e.get('opkind') == 'table-d-sequence')),
            'table_d_sweep_complete': n_tabled < 0,
            'rejected': len(rejected), 'rejected_refs': [r['ref'] for r in rejected][:10],
            'pool_mismatch': mismatches[:10],
            # a message that decodes fully but not metadata-only is not "just rejected": that is C17's clause
            # "decoding metadata only returns the same values for sections 0-3 as a full decode"
            '_info_only_failures': [r for r in rejected if r['full_ok'] and not r['info_ok']],
            # a message written by the independent writer (ground truth known) is valid by construction: if
            # the library cannot decode it alone, a stream made of it is not split into "exactly the messages
            # it contains" - C11, not a silent rejection
            '_valid_rejected': [r for r in rejected if r['src'] == 'synth' and r['has_truth']],
            '_all_rejected': rejected}
    return admitted, info


def run_family(engine, engine_name, family, count, seed, pool, tier, limit=None):
    # wall limit of one run (a watchdog, not a budget: typical runs take 0.05-2 s; an exhaustive truncation
    # sweep of a 6 KB message takes a minute on an idle core and several on a loaded machine)
    limit = limit or (180 if tier == 'quick' else 900)
    """-> list of (plan, status, trace)"""
    if family.endswith('-each'):
        plans = [engine.gen_plan(family, core.derive_seed(seed, engine_name, family, i), pool, tier, index=i)
                 for i in range(count)]
    else:
        plans = [engine.gen_plan(family, core.derive_seed(seed, engine_name, family, i), pool, tier)
                 for i in range(count)]
    res = core.pmap(engine_name, plans, limit=limit)
    return [(p, st, tr) for p, (st, tr) in zip(plans, res)]


class Stats(object):
    def __init__(self):
        self.evaluations = 0
        self.shapes = set()
        self.nontrivial_shapes = set()
        self.samples = []
        self.faults_fired = {}
        self.probes = {}
        self.steps = 0
        self.by_family = {}

    def probe(self, name, n=1):
        self.probes[name] = self.probes.get(name, 0) + n


def load_regress(prop):
    import glob
    out = []
    for path in sorted(glob.glob(os.path.join(core.VERIF_DIR, 'regress', prop, '*.json'))):
        with open(path) as f:
            out.append((path, json.load(f)))
    return out


def engine_module(name):
    import importlib
    return importlib.import_module('sim.' + name)


def check_main(prop, tier, engine, engine_name, families, level, rule, assumptions, account,
               extra_cov=None, pool_kwargs=None, design_ref=None):
    """families: list of (family, quick_count, thorough_count[, engine name]). account(stats, plan,
    trace) updates counters from one executed run. A family may name another engine than the
    check's main one (C08 takes one scenario from defsim)."""
    t0 = time.time()
    seed = core.master_seed()
    print('VERIF_SEED=%d property=%s tier=%s repo=%s jobs=%d' % (seed, prop, tier, core.REPO, core.jobs()))
    sys.stdout.flush()
    rep = core.Report(prop)
    main_engine = engine
    if getattr(main_engine, 'NEEDS_POOL', True):
        pool, pinfo = build_pool(seed, tier, **(pool_kwargs or {}))
        print('pool: %s (%.1fs)' % (json.dumps(pinfo)[:300], time.time() - t0))
        for mm in pinfo['pool_mismatch']:
            print('POOL-MISMATCH %s' % json.dumps(mm)[:300])
    elif hasattr(main_engine, 'build_pool'):
        # an engine with a world of its own (subsim: program groups measured alone in pristine processes)
        pool, pinfo = main_engine.build_pool(seed, tier)
        print('engine pool: %s (%.1fs)' % (json.dumps(pinfo)[:400], time.time() - t0))
    else:
        pool, pinfo = [], {'note': 'this engine writes its own messages (bufrgen) per run; no shared pool'}
    stats = Stats()
    info_fail = pinfo.pop('_info_only_failures', [])
    pinfo['fully_decodable_but_not_metadata_only'] = len(info_fail)
    valid_rej = pinfo.pop('_valid_rejected', [])
    pinfo['writer_made_messages_rejected'] = len(valid_rej)
    adm_plans = []
    if prop == 'C17':
        adm_plans = [{'engine': 'streamsim', 'family': 'c17-admit', 'seed': 0, 'items': [{'ref': r['ref'], 'hex': r['hex']}]}
                     for r in info_fail[:8]]
    elif prop == 'C11':
        adm_plans = [{'engine': 'streamsim', 'family': 'c11-admit', 'seed': 0, 'items': [{'ref': r['ref'], 'hex': r['hex']}]}
                     for r in valid_rej[:8]]
    elif prop == 'C08':
        # a pool message that the (interpreting) admission decode rejects: the compiling path must reject it
        # too - one path succeeding where the other fails is C08's business, not a silent rejection
        adm_plans = [{'engine': 'histsim', 'family': 'c08', 'sub': 'admit', 'seed': 0, 'limit': 50,
                      'clients': [{'compiled': 2, 'root': 'bundled'}],
                      'msgs': [{'ref': r['ref'], 'hex': r['hex'], 'cls': '?', 'json': '[]', 'qs': [], 'key': None,
                                'marker': False, 'nsub': 0}],
                      'ops': [{'op': 'decode', 'c': 0, 'm': 0, 'wire': True, 'ive': False},
                              {'op': 'decode', 'c': 0, 'm': 0, 'wire': False, 'ive': False}]}
                     for r in pinfo.get('_all_rejected', [])[:60]]
    if hasattr(main_engine, 'set_rejected'):
        main_engine.set_rejected(pinfo.get('_all_rejected', []))
    pinfo.pop('_all_rejected', None)
    if adm_plans:
        eng = engine_module(adm_plans[0]['engine'])
        plans = adm_plans
        for plan, (st, tr) in zip(plans, core.pmap(plans[0]['engine'], plans, limit=120)):
            stats.evaluations += 1
            stats.by_family[plan['family']] = stats.by_family.get(plan['family'], 0) + 1
            if st != 'ok':
                rep.add_harness('%s %s: %s' % (plan['family'], plan['items'][0]['ref'], tr))
                continue
            for sig in eng.oracle(plan, tr):
                rep.add(sig, plan, {'VERIF_SEED': seed, 'run_seed': 0, 'family': plan['family']})
    if hasattr(main_engine, 'prepare_pool'):
        pool = main_engine.prepare_pool(pool)
        print('engine pool: %d messages (%.1fs)' % (len(pool), time.time() - t0))
    # regression corpus: minimised histories of defects that were repaired (or of seeded changes that
    # were once missed); re-executed first on every run
    reg = load_regress(prop)
    if reg:
        t1 = time.time()
        nv = 0
        by_engine = {}
        for path, body in reg:
            by_engine.setdefault(body['plan']['engine'], []).append((path, body))
        for en, group in sorted(by_engine.items()):
            eng = engine_module(en)
            res = core.pmap(en, [b['plan'] for _p, b in group], limit=600)
            for (path, body), (st, tr) in zip(group, res):
                stats.evaluations += 1
                stats.by_family['regress'] = stats.by_family.get('regress', 0) + 1
                if st != 'ok' or tr.get('budget_exceeded'):
                    rep.add_harness('regress %s: %s' % (path, tr))
                    continue
                for sig in eng.oracle(body['plan'], tr):
                    if sig.get('property') == prop:
                        nv += 1
                        rep.add(sig, body['plan'], {'VERIF_SEED': seed, 'run_seed': body['plan'].get('seed', 0),
                                                    'family': 'regress', 'regress_file': os.path.basename(path)})
        print('family %-11s runs=%d alarms=%d (%.1fs)' % ('regress', len(reg), nv, time.time() - t1))
    for famspec in families:
        fam, qn, tn = famspec[:3]
        engine_name_f = famspec[3] if len(famspec) > 3 else engine_name
        engine = engine_module(engine_name_f)
        n = qn if tier == 'quick' else tn
        if n < 0:
            n = len(pool)           # one run per pool message
        n = int(n * float(os.environ.get('VERIF_SCALE', '1')))      # experiments only
        if os.environ.get('VERIF_FAMILIES') and fam not in os.environ['VERIF_FAMILIES'].split(','):
            continue                                                  # experiments only
        if not n:
            continue
        t1 = time.time()
        runs = run_family(engine, engine_name_f, fam, n, seed, pool, tier)
        t2 = time.time()
        # determinism spot check inside every run: re-execute the first plans with another worker count;
        # the traces must be identical (a check whose runs do not replay is not believed)
        k = min(len(runs), 12 if tier == 'quick' else 60)
        again = core.pmap(engine_name_f, [r[0] for r in runs[:k]], limit=900, njobs=4)
        for (plan0, st0, tr0), (st1, tr1) in zip(runs[:k], again):
            if st0 == 'ok' and st1 == 'ok':
                stats.probe('runs_re_executed_identically' if core.sha(tr0) == core.sha(tr1) else 'runs_diverged')
                if core.sha(tr0) != core.sha(tr1):
                    rep.add_harness('non-deterministic run: %s seed=%d' % (fam, plan0['seed']))
        if hasattr(engine, 'before_oracle'):
            engine.before_oracle(runs)
            print('  executed in %.1fs, references in %.1fs' % (t2 - t1, time.time() - t2))
        nv = 0
        for i, (plan, st, tr) in enumerate(runs):
            stats.evaluations += 1
            stats.by_family[fam] = stats.by_family.get(fam, 0) + 1
            if st != 'ok':
                rep.add_harness('%s seed=%d: %s' % (fam, plan['seed'], tr))
                continue
            if tr.get('budget_exceeded'):
                stats.probe('runs_inconclusive_step_budget')
                continue
            sh = engine.shape(plan, tr)
            stats.shapes.add(sh)
            if engine.nontrivial(plan, tr):
                stats.nontrivial_shapes.add(sh)
            account(stats, plan, tr)
            sigs = [s for s in engine.oracle(plan, tr) if s.get('property') == prop]
            for sig in sigs:
                nv += 1
                rep.add(sig, plan, {'VERIF_SEED': seed, 'run_seed': plan['seed'], 'family': fam, 'run_index': i})
            if len(stats.samples) < 4 and (i % max(1, n // 2) == 0):
                stats.samples.append({'plan': slim(plan), 'trace': slim_trace(tr)})
        print('family %-11s runs=%d alarms=%d (%.1fs)' % (fam, n, nv, time.time() - t1))
        sys.stdout.flush()

    def shrink_one(sig, plan):
        engine = engine_module(plan['engine'])

        def still(p):
            if not engine.valid(p):
                return False
            tr = core.run_in_child(engine.execute, p, 120)
            return any(_same(sig, s) for s in engine.oracle(p, tr))
        sp, execs = core.shrink(plan, engine.shrink_candidates, still)
        return sp, True, execs

    code = rep.finish(shrink_one)
    wall = time.time() - t0
    cov = {'evaluations': stats.evaluations, 'distinct_nontrivial': len(stats.nontrivial_shapes),
           'distinct_shapes': len(stats.shapes), 'rule': rule, 'samples': stats.samples,
           'runs_per_hour': int(stats.evaluations / max(wall, 1e-6) * 3600),
           'steps_total': stats.steps, 'faults_fired': stats.faults_fired, 'probes': stats.probes,
           'by_family': stats.by_family, 'pool': pinfo,
           'simulated_time': 'n/a - the system under test has no timers or clocks; progress is counted in steps',
           'seeds': {'VERIF_SEED': seed, 'derivation': 'sha256(VERIF_SEED|engine|family|index)'},
           'real_components': ['all of pybufrkit (decoder, scanner, tables, compiler, CLI main)', 'bitstring'],
           'stub_components': ['producer / channel (simulator)',
                               'command line runs in-process (pybufrkit.main) on real files in a scratch directory',
                               'pass-through fault wrapper around tables.open (histsim only)'],
           'known_findings_hit': rep.known_hits, 'harness_errors': len(rep.harness),
           'repo_hash': core.repo_hash()}
    if extra_cov:
        cov.update(extra_cov(stats))
    zero = [k for k, v in stats.probes.items() if v == 0]
    if zero:
        print('warning: probes at zero: %s' % zero)
    core.write_evidence(prop, tier, seed, level, cov, wall, len(rep.violations), assumptions)
    print('%s: %d runs, %d distinct non-trivial shapes, %.1fs, exit %d' %
          (prop, stats.evaluations, len(stats.nontrivial_shapes), wall, code))
    return code


def _same(a, b):
    keys = ('property', 'clause', 'exc_type', 'raise_site', 'got', 'exp', 'op')
    return all(a.get(k) == b.get(k) for k in keys)


def slim(plan):
    p = json.loads(json.dumps(plan))
    for it in p.get('items', []):
        if len(it.get('hex', '')) > 80:
            it['hex'] = it['hex'][:64] + '...(%d bytes)' % (len(it['hex']) // 2)
        it.pop('adm_info', None)
        it.pop('truth', None)
    for a in p.get('alone', []):
        if len(a.get('hex', '')) > 80:
            a['hex'] = a['hex'][:64] + '...(%d bytes)' % (len(a['hex']) // 2)
        if len(a.get('vals', '')) > 120:
            a['vals'] = a['vals'][:100] + '...'
    if len(p.get('json0', '')) > 200:
        p['json0'] = p['json0'][:160] + '...'
    if 'cuts' in p and len(p['cuts']) > 12:
        p['cuts'] = p['cuts'][:6] + ['...'] + p['cuts'][-3:]
    if len(p.get('tail', '')) > 80:
        p['tail'] = p['tail'][:64] + '...'
    for op in p.get('ops', []):
        for k in list(op):
            if isinstance(op[k], str) and len(op[k]) > 120:
                op[k] = op[k][:100] + '...'
    for m in p.get('msgs', []):
        if len(m.get('hex', '')) > 80:
            m['hex'] = m['hex'][:64] + '...(%d bytes)' % (len(m['hex']) // 2)
    return p


def slim_trace(tr):
    s = json.dumps(tr)
    if len(s) > 3000:
        return json.loads(json.dumps({'truncated': s[:3000]}))
    return tr


def replay(prop, path, engine):
    with open(path) as f:
        body = json.load(f)
    plan = body['plan']
    tr = core.run_in_child(engine.execute, plan, 300)
    sigs = [s for s in engine.oracle(plan, tr) if s.get('property') == prop]
    want = body.get('signature')
    print('replay %s: %d violation signature(s)' % (os.path.basename(path), len(sigs)))
    for s in sigs:
        print('  ' + json.dumps(s, sort_keys=True))
    if want is not None:
        same = any(_same(want, s) for s in sigs)
        print('expected signature %s' % ('reproduced' if same else 'NOT reproduced'))
    if sigs:
        print('VIOLATION property=%s replay=%s' % (prop, path))
        return core.EXIT_VIOLATION
    return core.EXIT_OK
