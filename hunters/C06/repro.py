"""
C06 - subsets of an uncompressed message are decoded independently of each other.

Run as
    cd /tmp/wt_r9_C06k && PYTHONPATH=/tmp/wt_r9_C06k /venv/bin/python SEEDED/C06k/repro.py

Every message is built with the library's own Encoder (wire_template_data=False,
so that only the flat encoding is used to build the input) and then handed to an
unchanged Decoder.
"""
from __future__ import print_function

import sys

from pybufrkit.decoder import Decoder
from pybufrkit.encoder import Encoder
from pybufrkit.renderer import NestedJsonRenderer

VERBOSE = '-v' in sys.argv


def message(descriptors, subsets, compiled=False):
    """Bytes of an uncompressed edition 4 message with the given subsets."""
    data = [
        ['BUFR', 0, 4],
        [0, 0, 98, 0, 0, False, '0000000', 0, 0, 0, 29, 0, 2020, 1, 1, 0, 0, 0],
        [0, '00000000', len(subsets), True, False, '000000', list(descriptors)],
        [0, '00000000', [list(s) for s in subsets]],
        ['7777'],
    ]
    encoder = Encoder(compiled_template_cache_max=(10 if compiled else None))
    return encoder.process(data, wire_template_data=False).serialized_bytes


def decode(descriptors, subsets, compiled=False, wire=True):
    decoder = Decoder(compiled_template_cache_max=(10 if compiled else None))
    return decoder.process(message(descriptors, subsets, compiled), wire_template_data=wire)


def attempt(func, *args, **kwargs):
    try:
        return 'ok', func(*args, **kwargs)
    except Exception as e:  # whatever it is, it is part of the observation
        return 'err', '{}: {}'.format(type(e).__name__, e)


def nested(msg, i):
    return NestedJsonRenderer().render(msg.template_data.value)[i]


def flat(msg, i):
    td = msg.template_data.value
    return ([str(d) for d in td.decoded_descriptors_all_subsets[i]],
            list(td.decoded_values_all_subsets[i]),
            dict(td.bitmap_links_all_subsets[i]))


def all_nodes(nodes):
    """Every node object reachable from a list of nodes (members, factor, attributes)."""
    out = []
    for node in nodes:
        out.append(node)
        if getattr(node, 'factor', None) is not None:
            out.extend(all_nodes([node.factor]))
        out.extend(all_nodes(getattr(node, 'members', [])))
        out.extend(all_nodes(getattr(node, 'attributes', [])))
    return out


def own_nodes(nodes):
    """The nodes of a subset proper, i.e. without following the attribute links."""
    out = []
    for node in nodes:
        out.append(node)
        if getattr(node, 'factor', None) is not None:
            out.append(node.factor)
        out.extend(own_nodes(getattr(node, 'members', [])))
    return out


def significance_leak(n, what, descriptors, subset_a, subset_b):
    """
    subset_a carries the "significance" element (031021 / 008023 / 008024), in
    subset_b the delayed replication around it is executed zero times.

    The property demands: [A, B] together == (A alone, B alone), and [B, A] the
    mirror image. Whatever B alone gives (here: wiring fails), B must give the same
    after A.
    """
    reproduced = False
    for compiled in (False, True):
        # The flat results are independent: this is purely the hierarchical structure
        unwired = decode(descriptors, [subset_a, subset_b], compiled, wire=False)
        a_unwired = decode(descriptors, [subset_a], compiled, wire=False)
        b_unwired = decode(descriptors, [subset_b], compiled, wire=False)
        flat_ok = (flat(unwired, 0) == flat(a_unwired, 0) and flat(unwired, 1) == flat(b_unwired, 0))

        b_alone = attempt(decode, descriptors, [subset_b], compiled)
        ab = attempt(decode, descriptors, [subset_a, subset_b], compiled)
        ba = attempt(decode, descriptors, [subset_b, subset_a], compiled)

        foreign = []
        rendered_b = None
        if ab[0] == 'ok':
            td = ab[1].template_data.value
            nodes_of_a = set(id(x) for x in own_nodes(td.decoded_nodes_all_subsets[0]))
            foreign = [x for x in all_nodes(td.decoded_nodes_all_subsets[1]) if id(x) in nodes_of_a]
            rendered_b = attempt(nested, ab[1], 1)

        if VERBOSE:
            print('  [{}] flat results alone == together: {}'.format('compiled' if compiled else 'plain', flat_ok))
            print('      B alone      :', b_alone[0], b_alone[1] if b_alone[0] == 'err' else '')
            print('      [A, B]       :', ab[0], ab[1] if ab[0] == 'err' else
                  '{} node(s) of subset A hang in the tree of subset B'.format(len(foreign)))
            print('      [B, A]       :', ba[0], ba[1] if ba[0] == 'err' else '')
            if rendered_b is not None:
                print('      B rendered after A:', rendered_b[1])

        # B alone cannot be wired, [B, A] cannot be wired, but [A, B] can - and B's tree
        # then holds a node that belongs to A.
        if flat_ok and ab[0] == 'ok' and foreign and (b_alone[0] == 'err' or ba[0] == 'err'):
            reproduced = True

    print('FINDING {}: {} -> {}'.format(n, what, 'REPRODUCED' if reproduced else 'NOT REPRODUCED'))


def finding_1():
    # 204008 | 1 01 000 031001 { 031021 } | 012001 | 204000
    descriptors = [204008, 101000, 31001, 31021, 12001, 204000]
    subset_a = [1, 1, 5, 280.0]  # factor 1, significance 1, associated field 5, temperature
    subset_b = [0, 7, 281.0]  # factor 0, associated field 7, temperature
    significance_leak(
        1, 'wiring: associated field significance (031021) of an earlier subset is attached to '
           'the associated field of a later subset; [A,B] wires, B alone and [B,A] do not',
        descriptors, subset_a, subset_b)

    if VERBOSE:
        # Variant: the node of A sits at an index that B does not have. The message [A, B]
        # decodes and wires, but it cannot be rendered at all - not even its subset A.
        subset_a3 = [3, 1, 2, 3, 5, 280.0]
        msg = decode(descriptors, [subset_a3, subset_b])
        print('      variant, A with factor 3: decode [A, B] ok; NestedJsonRenderer().render(message) ->',
              attempt(NestedJsonRenderer().render, msg)[1])
        print('      A alone renders          :', attempt(nested, decode(descriptors, [subset_a3]), 0)[0])


def finding_2():
    # 012001 | 224000 236000 1 01 001 031031 | 1 01 000 031001 { 008023 } | 224255
    descriptors = [12001, 224000, 236000, 101001, 31031, 101000, 31001, 8023, 224255]
    subset_a = [280.0, 0, 0, 0, 1, 4, 281.0]
    subset_b = [280.0, 0, 0, 0, 0, 282.0]
    significance_leak(
        2, 'wiring: first order statistics significance (008023) of an earlier subset is attached '
           'to the 224255 value of a later subset; [A,B] wires, B alone and [B,A] do not',
        descriptors, subset_a, subset_b)


def finding_3():
    descriptors = [12001, 225000, 236000, 101001, 31031, 101000, 31001, 8024, 225255]
    subset_a = [280.0, 0, 0, 0, 1, 4, 1.0]
    subset_b = [280.0, 0, 0, 0, 0, 2.0]
    significance_leak(
        3, 'wiring: difference statistics significance (008024) of an earlier subset is attached '
           'to the 225255 value of a later subset; [A,B] wires, B alone and [B,A] do not',
        descriptors, subset_a, subset_b)


def finding_4():
    """BufrMessage.subset() ignores the order (and the multiplicity) of the requested indices."""
    descriptors = [1001, 12001]
    subsets = [[1, 271.0], [2, 272.0], [3, 273.0]]
    msg = decode(descriptors, subsets, wire=False)

    def values_of_subset_request(indices):
        data = msg.subset(indices)
        out = Encoder().process(data, wire_template_data=False)
        back = Decoder().process(out.serialized_bytes, wire_template_data=False)
        return [list(v) for v in back.template_data.value.decoded_values_all_subsets]

    straight = attempt(values_of_subset_request, [0, 2])
    permuted = attempt(values_of_subset_request, [2, 0])
    twice = attempt(values_of_subset_request, [1, 1])
    if VERBOSE:
        print('      subset([0, 2]) ->', straight[1])
        print('      subset([2, 0]) ->', permuted[1], '(demanded: the mirror image of the line above)')
        print('      subset([1, 1]) ->', twice[1], '(n_subsets says 2, one list of values is handed over)')

    reproduced = (
            straight[0] == 'ok' and permuted[0] == 'ok' and
            straight[1] == [subsets[0], subsets[2]] and
            permuted[1] != [subsets[2], subsets[0]]
    )
    print('FINDING 4: BufrMessage.subset([2, 0]) returns the subsets in the order 0, 2 (the permutation '
          'is not applied); subset([1, 1]) announces 2 subsets and delivers 1 -> {}'.format(
              'REPRODUCED' if reproduced else 'NOT REPRODUCED'))


if __name__ == '__main__':
    finding_1()
    finding_2()
    finding_3()
    finding_4()
