"""
C08k - template compilation does not preserve behaviour: reproduction of every finding.

Run as:  cd /tmp/wt_r9_C08k && PYTHONPATH=/tmp/wt_r9_C08k /venv/bin/python SEEDED/C08k/repro.py

Every message is hand-packed (edition 4, master table version 33, one subset unless said
otherwise).  Each message is decoded three ways
    plain    Decoder()
    comp     Decoder(compiled_template_cache_max=10)
    reload   as comp, but every compiled template goes through json.dumps(to_dict()) /
             loads_compiled_template() before process_compiled_template() runs it
and, where the plain decoder succeeds, the decoded values are encoded again with
    Encoder() / Encoder(compiled_template_cache_max=10) / the re-loading variant.
The property demands identical results (values, descriptors, links, bytes or the same error).
"""
from __future__ import print_function

import copy
import json
import struct
import sys

from pybufrkit.decoder import Decoder
from pybufrkit.encoder import Encoder
from pybufrkit.renderer import FlatJsonRenderer
from pybufrkit.templatecompiler import CompiledTemplateManager, loads_compiled_template

VERBOSE = '-q' not in sys.argv


# --------------------------------------------------------------------------- helpers
def bits_of(pairs):
    out = []
    for p in pairs:
        if isinstance(p, str):
            out.append(p)
            continue
        v, n = p
        if v < 0:  # new reference values: sign and magnitude
            v = (1 << (n - 1)) | (-v)
        out.append(format(v, '0{}b'.format(n)))
    return ''.join(out)


def mk(descs, pairs, n_subsets=1, compressed=False, mtv=33, extra_bytes=0):
    """A complete edition 4 message with the given unexpanded descriptors and data bits"""
    bitstr = bits_of(pairs)
    bitstr += '0' * (-len(bitstr) % 8)
    data = bytes(bytearray(int(bitstr[i:i + 8], 2) for i in range(0, len(bitstr), 8))) + b'\0' * extra_bytes
    s1 = (struct.pack('>I', 22)[1:] + b'\0' + struct.pack('>HH', 0, 0) +
          bytes(bytearray([0, 0, 0, 0, 0, mtv, 0])) + struct.pack('>H', 2020) + bytes(bytearray([1, 1, 0, 0, 0])))
    flags = 0x80 | (0x40 if compressed else 0)
    s3body = b'\0' + struct.pack('>H', n_subsets) + bytes(bytearray([flags]))
    for d in descs:
        f, x, y = d // 100000, d // 1000 % 100, d % 1000
        s3body += bytes(bytearray([(f << 6) | x, y]))
    s3 = struct.pack('>I', len(s3body) + 3)[1:] + s3body
    s4 = struct.pack('>I', len(data) + 4)[1:] + b'\0' + data
    total = 8 + len(s1) + len(s3) + len(s4) + 4
    return b'BUFR' + struct.pack('>I', total)[1:] + b'\x04' + s1 + s3 + s4 + b'7777'


class ReloadingManager(CompiledTemplateManager):
    """Every compiled template is saved as JSON and loaded back before it is used"""

    def get_or_compile(self, template, table_group):
        ct = super(ReloadingManager, self).get_or_compile(template, table_group)
        return loads_compiled_template(json.dumps(ct.to_dict()))


def summarize(msg):
    td = msg.template_data.value
    return {
        'descs': [[(type(d).__name__, str(d)) for d in ds] for ds in td.decoded_descriptors_all_subsets],
        'values': td.decoded_values_all_subsets,
        'links': [dict(x) for x in td.bitmap_links_all_subsets],
    }


def run(fn):
    try:
        return ('ok', fn())
    except Exception as e:
        return ('err', type(e).__name__, str(e))


def decode3(s):
    def rl():
        d = Decoder(compiled_template_cache_max=10)
        d.compiled_template_manager = ReloadingManager(10)
        return summarize(d.process(s))
    return {
        'plain': run(lambda: summarize(Decoder().process(s))),
        'comp': run(lambda: summarize(Decoder(compiled_template_cache_max=10).process(s))),
        'reload': run(rl),
    }


def encode3(s):
    js = FlatJsonRenderer().render(Decoder().process(s))

    def rl():
        e = Encoder(compiled_template_cache_max=10)
        e.compiled_template_manager = ReloadingManager(10)
        return e.process(copy.deepcopy(js)).serialized_bytes
    return {
        'plain': run(lambda: Encoder().process(copy.deepcopy(js)).serialized_bytes),
        'comp': run(lambda: Encoder(compiled_template_cache_max=10).process(copy.deepcopy(js)).serialized_bytes),
        'reload': run(rl),
    }


def brief(r):
    if r[0] == 'err':
        return '{}: {}'.format(r[1], r[2])
    if isinstance(r[1], dict):
        return 'ok values={} links={}'.format(r[1]['values'], r[1]['links'])
    return 'ok {} bytes'.format(len(r[1]))


def differs(res):
    """compiled AND re-loaded both deviate from the plain result"""
    return res['comp'] != res['plain'] and res['reload'] != res['plain']


def report(n, what, checks):
    """checks: list of (label, res3) that all have to deviate"""
    ok = all(differs(res) for _, res in checks)
    print('FINDING {}: {} -> {}'.format(n, what, 'REPRODUCED' if ok else 'NOT REPRODUCED'))
    if VERBOSE:
        for label, res in checks:
            print('      [{}] {}'.format(label, 'deviates' if differs(res) else 'same'))
            for k in ('plain', 'comp', 'reload'):
                print('          {:6s} {}'.format(k, brief(res[k])))
    return ok


# widths (Table B version 33): 012001/012002 12 bits scale 1; 033007 7 bits; 031031 1 bit;
# 031001 8 bits; 008023 6 bits (code table)
results = []

# --------------------------------------------------------------------------- finding 1
# A class 33 element that follows a marker operator (no other element in between) after
# "quality information follows".  Plain: the substituted value T12001 (not class 33) ends the
# quality information, 033007 is an ordinary element.  Compiled: the compiler records the marker
# operator without running process_element_descriptor, its status_qa_info_follows stays
# PROCESSING and an add_bitmap_link() is compiled in front of 033007.
F1a = mk([12001, 12002, 222000, 236000, 101002, 31031, 33007, 223000, 237000, 223255, 33007],
         [(100, 12), (200, 12), '00', (50, 7), (111, 12), (60, 7)])
# ... and with one more marker operator the extra link has used up the bitmap
F1b = mk([12001, 12002, 222000, 236000, 101002, 31031, 33007, 223000, 237000, 223255, 33007, 223255],
         [(100, 12), (200, 12), '00', (50, 7), (111, 12), (60, 7), (222, 12)])
# the same message compressed, two subsets (built with the plain encoder)
js = FlatJsonRenderer().render(Decoder().process(F1b))
js[3][2] = [js[3][2][0], list(js[3][2][0])]
js[3][2][1][0] = 30.0
js[2][2] = 2
js[2][4] = True
F1c = Encoder().process(js).serialized_bytes
results.append(report(
    1, 'class 33 element after a marker operator gets a bitmap link only when compiled',
    [('decode, extra link 10->1', decode3(F1a)),
     ('decode, next marker runs out of bitmap', decode3(F1b)),
     ('encode of the values decoded plainly', encode3(F1b)),
     ('decode, compressed, 2 subsets', decode3(F1c))]))

# --------------------------------------------------------------------------- finding 2
# Marker operator whose bitmapped descriptor is itself of class 33 while quality information is
# being processed.  Plain: process_element_descriptor(T33007) sees X == 33 and PROCESSING and
# takes one MORE descriptor from the bitmap (add_bitmap_link), so the second 223255 fails.
# Compiled: at runtime status_qa_info_follows is always NA -> both marker operators decode.
F2 = mk([33007, 12001, 222000, 236000, 101002, 31031, 33007, 223000, 237000, 223255, 223255],
        [(10, 7), (200, 12), '00', (50, 7), (11, 7), (222, 12)])
results.append(report(
    2, 'marker operator on a class 33 descriptor during quality information: plain fails, compiled decodes',
    [('decode', decode3(F2))]))

# --------------------------------------------------------------------------- finding 3
# The quality values stand under a delayed replication that is executed zero times.  Plain: the
# status stays WAITING, the later 033007 becomes quality information of 012001 (link 6->0).
# Compiled: the loop body was compiled once (WAITING->PROCESSING), 008023 ended it at compile
# time, no link is made and wiring the message fails with KeyError.
F3 = mk([12001, 222000, 236000, 31031, 101000, 31001, 33007, 8023, 33007],
        [(100, 12), '0', (0, 8), (4, 6), (50, 7)])
results.append(report(
    3, 'quality values under a replication executed 0 times: later class 33 element linked only without compilation',
    [('decode (factor 0)', decode3(F3))]))

# --------------------------------------------------------------------------- finding 4
# Bitmap whose bits stand under two delayed replications, factors 0 and 2.  Plain: nothing
# happened in the first one, the second one counts two bits, 033007 ends the definition.
# Compiled: the bitmap state machine ran at compile time: first body -> COUNTING, the second
# 101000 "ends" the bitmap (define_bitmap recorded there), the bits of the second replication
# are not counted at all -> at runtime n_031031 == 0, nothing defined.
F4a = mk([12001, 12002, 222000, 236000, 101000, 31001, 31031, 101000, 31001, 31031, 33007, 33007],
         [(100, 12), (200, 12), (0, 8), (2, 8), '00', (50, 7), (60, 7)])
# variant: delayed part (factor 0) followed by a fixed part
F4b = mk([12001, 12002, 222000, 236000, 101000, 31001, 31031, 101002, 31031, 33007, 33007],
         [(100, 12), (200, 12), (0, 8), '00', (50, 7), (60, 7)])
results.append(report(
    4, 'bitmap bits after a bit replication executed 0 times are not counted by the compiled template',
    [('decode, delayed(0) + delayed(2)', decode3(F4a)),
     ('encode, delayed(0) + delayed(2)', encode3(F4a)),
     ('decode, delayed(0) + fixed(2)', decode3(F4b))]))

# --------------------------------------------------------------------------- finding 5
# 203010 ... 203255 ... 203000 all on one level, the element to be re-referenced under a
# delayed replication executed zero times.  Plain: no new reference value, 012001 decodes with
# its Table B reference.  Compiled: new_refvals[12001] was set at compile time, the second
# 012001 is compiled as process_numeric_of_new_refval -> KeyError at runtime.
F5 = mk([203010, 101000, 31001, 12001, 203255, 12001, 203000], [(0, 8), (100, 12)])
results.append(report(
    5, 'new reference value defined under a replication executed 0 times: compiled template fails with KeyError',
    [('decode (factor 0)', decode3(F5)),
     ('encode (factor 0)', encode3(F5))]))

# --------------------------------------------------------------------------- finding 6
# The compiler walks every descriptor, also those that the data never reach.  Anything that
# raises there is reported although the plain decoder / encoder finishes without error.
F6a = mk([12001, 101000, 31001, 63250], [(100, 12), (0, 8)])            # unknown local element
F6b = mk([12001, 101000, 31001, 241000], [(100, 12), (0, 8)])           # operator not implemented
F6c = mk([12001, 104000, 31001, 203010, 1015, 203255, 203000], [(100, 12), (0, 8)])  # 203 on a string
F6d = mk([12001, 241000], [], n_subsets=0)                              # no subset at all
results.append(report(
    6, 'descriptors that are never executed (factor 0 / no subsets) raise at compile time only',
    [('decode, unknown element 063250 under factor 0', decode3(F6a)),
     ('encode, unknown element 063250 under factor 0', encode3(F6a)),
     ('decode, 241000 under factor 0', decode3(F6b)),
     ('decode, 203010 on 001015 under factor 0', decode3(F6c)),
     ('decode, 0 subsets, template with 241000', decode3(F6d))]))

# --------------------------------------------------------------------------- finding 7
# (scope uncertain, see findings.md) 221YYY counts executed descriptors without compilation but
# template descriptors with it.
F7a = mk([221003, 101002, 12001, 12002, 12001], [(100, 12), (200, 12)], extra_bytes=4)
F7b = mk([221002, 101000, 31001, 12001, 12002], [(0, 8)], extra_bytes=4)
results.append(report(
    7, '221YYY reaching into a replication counts differently (scope uncertain)',
    [('decode, 221003 over 101002', decode3(F7a)),
     ('decode, 221002 over 101000 with factor 0', decode3(F7b))]))

print('{} of {} findings reproduced'.format(sum(results), len(results)))
