"""
Reproduction of the C11 findings (byte stream -> exactly the messages it contains).

Run:  cd /tmp/wt_r9_C11k && PYTHONPATH=/tmp/wt_r9_C11k /venv/bin/python SEEDED/C11k/repro.py

Every finding builds its own input (hand-packed sections, or messages cut out of
tests/data/prepbufr.bufr and patched byte-wise) and prints
    FINDING <n>: <what> -> REPRODUCED|NOT REPRODUCED
The process-wide table cache of the library is replaced by a fresh one between the
findings, only to keep them independent of each other (finding 3 is about that cache).
"""
from __future__ import print_function

import contextlib
import io
import os
import struct
import subprocess
import sys

HERE = os.path.dirname(os.path.abspath(__file__))
ROOT = os.path.dirname(os.path.dirname(HERE))
sys.path.insert(0, ROOT)

import pybufrkit  # noqa: E402
from pybufrkit import tables  # noqa: E402
from pybufrkit.decoder import Decoder, generate_bufr_message  # noqa: E402
from pybufrkit.errors import PyBufrKitError  # noqa: E402

assert os.path.dirname(os.path.dirname(os.path.abspath(pybufrkit.__file__))) == ROOT, pybufrkit.__file__


# ----------------------------------------------------------------------------- helpers
def fresh_tables():
    tables.TableGroupCacheManager._TABLE_GROUP_CACHE = tables.TableGroupCache()


def u24(n):
    return struct.pack('>I', n)[1:]


def pack_descs(descs):
    return b''.join(struct.pack('>H', ((x // 100000) << 14) | (((x // 1000) % 100) << 8) | (x % 1000))
                    for x in descs)


def mk(edition=4, descs=(1001,), data=b'\x00\x00', nsub=1, cat=0):
    """A small valid message of edition 2, 3 or 4: one subset, 001001 (7 bits) = 0."""
    if edition == 4:
        body = bytes(bytearray([0])) + struct.pack('>HH', 98, 0) + bytes(bytearray([0, 0, cat, 0, 0, 29, 0])) + \
            struct.pack('>H', 2020) + bytes(bytearray([1, 2, 3, 4, 5]))
    elif edition == 3:
        body = bytes(bytearray([0, 0, 98, 0, 0, cat, 0, 13, 0, 20, 1, 2, 3, 4, 0]))
    else:
        body = bytes(bytearray([0])) + struct.pack('>H', 98) + bytes(bytearray([0, 0, cat, 0, 13, 0, 20, 1, 2, 3, 4, 0]))
    s1 = u24(3 + len(body)) + body
    s3b = b'\x00' + struct.pack('>H', nsub) + b'\x80' + pack_descs(descs)
    if edition < 4 and (3 + len(s3b)) % 2:
        s3b += b'\x00'
    s3 = u24(3 + len(s3b)) + s3b
    s4b = b'\x00' + data
    if edition < 4 and (3 + len(s4b)) % 2:
        s4b += b'\x00'
    s4 = u24(3 + len(s4b)) + s4b
    rest = s1 + s3 + s4 + b'7777'
    return b'BUFR' + u24(8 + len(rest)) + bytes(bytearray([edition])) + rest


def mk_edition1():
    """A BUFR edition 1 message: section 0 is the 4 octets 'BUFR' only, the edition
    number is octet 4 of section 1, there is no total length anywhere."""
    s1 = u24(18) + bytes(bytearray([1])) + struct.pack('>H', 98) + bytes(bytearray([0, 0, 0, 0, 1, 0, 95, 1, 2, 3, 4, 0]))
    s3b = b'\x00' + struct.pack('>H', 1) + b'\x80' + pack_descs((1001,)) + b'\x00'
    s3 = u24(3 + len(s3b)) + s3b
    s4 = u24(6) + b'\x00' + b'\x00\x00'
    return b'BUFR' + s1 + s3 + s4 + b'7777'


def scan(stream, **kw):
    """[m.serialized_bytes ...], stderr chatter of continue_on_error swallowed"""
    decoder = kw.pop('decoder', None) or Decoder()
    with contextlib.redirect_stderr(io.StringIO()):
        return [m.serialized_bytes for m in generate_bufr_message(decoder, stream, **kw)]


def outcome(stream, **kw):
    try:
        return scan(stream, **kw)
    except BaseException as e:  # noqa
        return e


def report(n, what, reproduced, detail=''):
    print('FINDING {}: {} -> {}'.format(n, what, 'REPRODUCED' if reproduced else 'NOT REPRODUCED'))
    if detail:
        print('           ' + detail)


def prepbufr_messages():
    with open(os.path.join(ROOT, 'tests', 'data', 'prepbufr.bufr'), 'rb') as ins:
        s = ins.read()
    fresh_tables()
    return s, scan(s, info_only=True)


def first_b_entry_offset(m):
    """Octet offset of the first Table B entry (its 000010 'F' character) inside the NCEP
    table-definition message (edition 3, no section 2, everything byte aligned)."""
    off = 8
    off += int.from_bytes(m[off:off + 3], 'big')  # section 1
    off += int.from_bytes(m[off:off + 3], 'big')  # section 3
    p = off + 4                                   # first data octet of section 4
    n_a = m[p]                                    # 031001 of the Table A replication
    p += 1 + n_a * (3 + 32 + 32)
    p += 1                                        # 031001 of the Table B replication
    return p


# ----------------------------------------------------------------------------- findings
def finding_1():
    """filter rejects the table-definition messages -> the accepted messages cannot be decoded"""
    s, msgs = prepbufr_messages()
    cats = []
    for m in msgs:
        cats.append(Decoder().process(m, info_only=True).data_category.value)
    expected = [m for m, c in zip(msgs, cats) if c != 11]

    fresh_tables()
    unfiltered_ok = outcome(s) == msgs                      # sanity: the file itself scans fine
    fresh_tables()
    r1 = outcome(s, filter_expr='${%data_category} != 11')
    fresh_tables()
    r2 = outcome(s, filter_expr='${%data_category} != 11', continue_on_error=True)
    fresh_tables()
    r3 = outcome(s, filter_expr='${%data_category} != 11', info_only=True)  # metadata only: fine
    rep = unfiltered_ok and r3 == expected and r1 != expected and r2 != expected
    report(1, "tests/data/prepbufr.bufr with filter '${%data_category} != 11': none of the 11 matching messages is yielded",
           rep, 'expected {} messages; plain: {}; continue_on_error: {} messages'.format(
               len(expected), '{}: {}'.format(type(r1).__name__, r1) if isinstance(r1, BaseException) else len(r1),
               r2 if isinstance(r2, BaseException) else len(r2)))


def finding_2():
    """table-definition message with a missing (all ones) character field"""
    _, msgs = prepbufr_messages()
    m1 = msgs[0]
    p = first_b_entry_offset(m1)
    assert m1[p:p + 6] == b'063000' and m1[p + 38:p + 70] == b' ' * 32
    patched = m1[:p + 38] + b'\xff' * 32 + m1[p + 70:]      # 000014 'element name, line 2' := missing
    good = mk(4)

    fresh_tables()
    single_ok = Decoder().process(patched).serialized_bytes == patched   # a valid, decodable message
    fresh_tables()
    r1 = outcome(patched + good)
    fresh_tables()
    r2 = outcome(patched + good, continue_on_error=True)
    rep = single_ok and isinstance(r1, UnicodeDecodeError) and isinstance(r2, UnicodeDecodeError)
    report(2, 'table-definition message whose 000014 (element name, line 2) is missing (0xFF..): '
              'UnicodeDecodeError leaves generate_bufr_message, also with continue_on_error', rep,
           'plain: {!r}; continue_on_error: {!r}'.format(r1 if isinstance(r1, BaseException) else len(r1),
                                                         r2 if isinstance(r2, BaseException) else len(r2)))


def finding_3():
    """table-definition entry with a blank padded X -> process-wide table cache unusable"""
    _, msgs = prepbufr_messages()
    m1 = msgs[0]
    p = first_b_entry_offset(m1)
    patched = m1[:p + 1] + b' 1' + m1[p + 3:]               # F='0' X=' 1' Y='000'
    good3, good4 = mk(3), mk(4)

    fresh_tables()
    r1 = outcome(patched + good3 + good4)                    # aborts at good3
    r2 = outcome(patched + good3 + good4, continue_on_error=True)
    # a second, completely unrelated stream scanned afterwards in the same process
    r3 = outcome(good4 + good3)
    r4 = outcome(good4 + good3, continue_on_error=True)
    fresh_tables()
    sane = outcome(good4 + good3) == [good4, good3]
    rep = sane and isinstance(r1, PyBufrKitError) and r3 != [good4, good3] and r4 == []
    report(3, "table-definition entry with X=' 1' (blank padded): every later message, and every later "
              "stream in the process, is refused", rep,
           'same stream: {}; later stream: {}; later stream with continue_on_error: {} of 2 messages'.format(
               r1 if isinstance(r1, BaseException) else len(r1),
               r3 if isinstance(r3, BaseException) else len(r3),
               r4 if isinstance(r4, BaseException) else len(r4)))


def finding_4():
    """edition 1"""
    e1, good = mk_edition1(), mk(4)
    stream = b'xx' + e1 + b'xx' + good + b'xx' + e1
    fresh_tables()
    res = {}
    for info in (False, True):
        for coe in (False, True):
            res[(info, coe)] = outcome(stream, info_only=info, continue_on_error=coe)
    rep = all(r != [e1, good, e1] for r in res.values())
    report(4, 'BUFR edition 1 messages (definitions/section1-1.json is shipped) are never yielded, full or info-only',
           rep, '; '.join('info_only={} continue_on_error={}: {}'.format(
               k[0], k[1], ('{}: {}'.format(type(v).__name__, str(v)[:90]) if isinstance(v, BaseException)
                            else '{} of 3 messages'.format(len(v)))) for k, v in sorted(res.items())))


def cli(args, stdin=None):
    env = dict(os.environ, PYTHONPATH=ROOT, PYTHONDONTWRITEBYTECODE='1')
    p = subprocess.Popen([sys.executable, '-m', 'pybufrkit'] + args, stdin=subprocess.PIPE,
                         stdout=subprocess.PIPE, stderr=subprocess.PIPE, env=env, cwd=ROOT)
    out, err = p.communicate(stdin)
    return p.returncode, out, err


def finding_5():
    """decode -m - (stream on standard input)"""
    stream = b'ZCZC\r\n' + mk(4) + b'\r\nNNNN' + mk(3) + b'BUF' + mk(2)
    rc, out, err = cli(['decode', '-m', '-'], stdin=stream)
    n = out.count(b'<<<<<< section 0')
    rep = n != 3 and b'TypeError' in err
    report(5, "'pybufrkit decode -m -' with a 3-message stream on standard input shows no message (TypeError: str/bytes)",
           rep, 'messages shown: {}; exit code {}; last line of stderr: {}'.format(
               n, rc, err.strip().splitlines()[-1].decode() if err.strip() else ''))


def finding_6():
    """filter expression with leading white space"""
    m4, m3 = mk(4), mk(3)
    fresh_tables()
    ok = outcome(m4 + m3, filter_expr='${%edition} == 4 ') == [m4]     # trailing blank is fine
    r = outcome(m4 + m3, filter_expr=' ${%edition} == 4')
    rep = ok and isinstance(r, SyntaxError)
    report(6, "filter ' ${%edition} == 4' (leading blank): IndentationError instead of the edition 4 message",
           rep, repr(r) if isinstance(r, BaseException) else '{} messages'.format(len(r)))


def finding_7():
    """filter over a metadata item that some editions do not have"""
    m4, m3, m2 = mk(4), mk(3), mk(2)
    fresh_tables()
    r1 = outcome(m4 + m3 + m2, filter_expr='${%data_i18n_subcategory} < 5', continue_on_error=True)
    r2 = outcome(m4 + m3 + m2, filter_expr='${%originating_subcentre} >= 0', continue_on_error=True)
    r3 = outcome(m4 + m3 + m2, filter_expr='${%originating_subcentre} == 0')
    rep = isinstance(r1, TypeError) and isinstance(r2, TypeError) and r3 == [m4, m3]
    report(7, "mixed editions 4,3,2 with filter '${%data_i18n_subcategory} < 5' / '${%originating_subcentre} >= 0': "
              "TypeError ends the scan (also with continue_on_error)", rep,
           '{!r}; {!r}; "== 0" drops the edition 2 message although BufrMessage.originating_subcentre is 0 there: {}'.format(
               r1 if isinstance(r1, BaseException) else len(r1), r2 if isinstance(r2, BaseException) else len(r2),
               r3 if isinstance(r3, BaseException) else '{} of 3'.format(len(r3))))


def finding_8():
    """decode --filter without -m ignores the filter"""
    import tempfile
    fd, path = tempfile.mkstemp(suffix='.bufr', dir=HERE)
    try:
        with os.fdopen(fd, 'wb') as outs:
            outs.write(mk(3) + mk(4))
        rc, out, err = cli(['decode', '--filter', '${%edition} == 4', path])
    finally:
        os.remove(path)
    rep = out.count(b'<<<<<< section 0') == 1 and b'edition = 3' in out
    report(8, "'pybufrkit decode --filter \"${%edition} == 4\" FILE' (no -m) shows the edition 3 message: "
              "the filter is silently ignored", rep)


if __name__ == '__main__':
    for f in (finding_1, finding_2, finding_3, finding_4, finding_5, finding_6, finding_7, finding_8):
        try:
            f()
        except Exception as exc:  # a finding must not hide the others
            print('FINDING {}: harness error {!r} -> NOT REPRODUCED'.format(f.__name__.split('_')[1], exc))
    fresh_tables()
