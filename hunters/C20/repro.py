"""
C20 - In-stream table definitions govern the messages that follow them.

Reproduces the findings of findings.md against the unchanged worktree.

    cd /tmp/wt_r9_C20k && PYTHONPATH=/tmp/wt_r9_C20k /venv/bin/python SEEDED/C20k/repro.py

All inputs are hand-packed here (NCEP definition layout, edition 3) or taken from tests/data.
"""
from __future__ import print_function

import contextlib
import io
import json
import logging
import os
import sys

logging.disable(logging.CRITICAL)

import pybufrkit
from pybufrkit.decoder import Decoder, generate_bufr_message
from pybufrkit.tables import TableGroupCacheManager

HERE = os.path.dirname(os.path.abspath(__file__))
ROOT = os.path.dirname(os.path.dirname(HERE))
PREPBUFR = os.path.join(ROOT, 'tests', 'data', 'prepbufr.bufr')

# Descriptor list of an NCEP table-definition ("DX") message
DX = [103000, 31001, 1, 2, 3, 101000, 31001, 300004, 105000, 31001, 300003, 205064, 101000, 31001, 30]


# --------------------------------------------------------------------------- bit packing
class W(object):
    def __init__(self):
        self.b = []

    def u(self, v, n):
        assert 0 <= v < (1 << n), (v, n)
        if n:
            self.b.append(format(v, '0{}b'.format(n)))
        return self

    def s(self, txt, nbytes):
        if isinstance(txt, str):
            txt = txt.encode('latin-1')
        txt = txt.ljust(nbytes)[:nbytes]
        for c in bytearray(txt):
            self.u(c, 8)
        return self

    def bits(self):
        return ''.join(self.b)

    def bytes(self):
        bits = self.bits()
        if len(bits) % 8:
            bits += '0' * (8 - len(bits) % 8)
        return bytes(bytearray(int(bits[i:i + 8], 2) for i in range(0, len(bits), 8)))


def message(descriptors, data_bits, n_subsets=1, data_category=0, centre=7, subcentre=3, mtv=13, ltv=0):
    """An edition 3 message, sections 0, 1, 3, 4, 5."""
    s1 = W().u(18, 24).u(0, 8).u(subcentre, 8).u(centre, 8).u(0, 8).u(0, 8).u(data_category, 8) \
        .u(0, 8).u(mtv, 8).u(ltv, 8).u(20, 8).u(1, 8).u(1, 8).u(0, 8).u(0, 8).u(0, 8).bytes()
    w = W()
    for d in descriptors:
        w.u(d // 100000, 2).u(d // 1000 % 100, 6).u(d % 1000, 8)
    body = w.bytes()
    pad3 = b'\0' if (7 + len(body)) % 2 else b''
    s3 = W().u(7 + len(body) + len(pad3), 24).u(0, 8).u(n_subsets, 16).u(0x80, 8).bytes() + body + pad3
    wd = W()
    wd.b.append(data_bits)
    d = wd.bytes()
    pad4 = b'\0' if (4 + len(d)) % 2 else b''
    s4 = W().u(4 + len(d) + len(pad4), 24).u(0, 8).bytes() + d + pad4
    total = 8 + len(s1) + len(s3) + len(s4) + 4
    return b'BUFR' + W().u(total, 24).u(3, 8).bytes() + s1 + s3 + s4 + b'7777'


def B(id_, name, unit, scale, ref, width):
    return (id_, name, unit, '+' if scale >= 0 else '-', abs(scale), '+' if ref >= 0 else '-', abs(ref), width)


def dx_message(a_entries=(), b_entries=(), d_entries=()):
    """
    a_entries: [(code, line1, line2)]
    b_entries: [(id, name | (line1, line2), unit, scale sign, scale, reference sign, reference, width)]
    d_entries: [(id, name, [member ids])]
    """
    w = W()
    w.u(len(a_entries), 8)
    for code, l1, l2 in a_entries:
        w.s(code, 3).s(l1, 32).s(l2, 32)
    w.u(len(b_entries), 8)
    for id_, name, unit, ss, sc, rs, ref, width in b_entries:
        t = '{:06d}'.format(id_)
        w.s(t[0], 1).s(t[1:3], 2).s(t[3:], 3)
        if isinstance(name, tuple):
            l1, l2 = name
        else:
            name = name.ljust(64)
            l1, l2 = name[:32], name[32:]
        w.s(l1, 32).s(l2, 32).s(unit, 24).s(ss, 1).s(str(sc), 3).s(rs, 1).s(str(ref), 10).s(str(width), 3)
    w.u(len(d_entries), 8)
    for id_, name, members in d_entries:
        t = '{:06d}'.format(id_)
        w.s(t[0], 1).s(t[1:3], 2).s(t[3:], 3).s(name, 64).u(len(members), 8)
        for m in members:
            w.s(m if isinstance(m, str) else '{:06d}'.format(m), 6)
    return message(DX, w.bits(), data_category=11, ltv=1)


def reset():
    """Start from a process that has not seen any definition message."""
    c = TableGroupCacheManager._TABLE_GROUP_CACHE
    c._groups.clear()
    c.extra_b_entries.clear()
    c.extra_d_entries.clear()


def scan(stream, decoder=None, **kw):
    decoder = decoder or Decoder()
    with contextlib.redirect_stderr(io.StringIO()):
        return list(generate_bufr_message(decoder, stream, **kw))


def values(m, subset=0):
    return m.template_data.value.decoded_values_all_subsets[subset]


def descriptors(m, subset=0):
    return m.template_data.value.decoded_descriptors_all_subsets[subset]


def report(n, what, reproduced, detail=''):
    print('FINDING {}: {} -> {}'.format(n, what, 'REPRODUCED' if reproduced else 'NOT REPRODUCED'))
    if detail:
        for line in detail.splitlines():
            print('    ' + line)


# --------------------------------------------------------------------------- finding 1
def finding_1():
    """The 64-character element name is cut in two 32-character halves (000013, 000014); the
    processor right-strips the FIRST half before gluing them, so a blank at column 32 is lost."""
    reset()
    line1 = 'WIND     TABLE B ENTRY - AMOUNT '   # 32 characters, the 32nd is the blank between two words
    line2 = 'OF LOW CLOUD'
    assert len(line1) == 32
    dx = dx_message(b_entries=[(48001, (line1, line2), 'NUMERIC', '+', 0, '+', 0, 8)])
    data = message([48001], W().u(5, 8).bits(), data_category=243)
    ms = scan(dx + data)
    got = descriptors(ms[1])[0].name
    want = (line1 + line2).rstrip()
    hand = (got != want and values(ms[1]) == [5])

    # The same on the file of the test suite: 020051 LCLD "... AMOUNT" | "OF LOW CLOUD"
    reset()
    with open(PREPBUFR, 'rb') as ins:
        s = ins.read()
    g = generate_bufr_message(Decoder(), s)
    with contextlib.redirect_stderr(io.StringIO()):
        m0 = next(g)
        m1 = next(g)
        m2 = next(g)
    v = values(m0)
    raw = None
    for i in range(len(v) - 4):
        if v[i:i + 3] == [b'0', b'20', b'051']:
            raw = (v[i + 3] + v[i + 4]).decode().rstrip()
    got_file = [d.name for d in descriptors(m2) if d.id == 20051][0]
    file_ = (raw is not None and got_file != raw)
    report(1, 'blank at column 32 of a two-line element name is dropped', hand and file_,
           'hand-packed: name in definition {!r}\n             name of decoded descriptor {!r}\n'
           'prepbufr.bufr 020051: in definition {!r}\n                      decoded       {!r}'.format(
               want, got, raw, got_file))


# --------------------------------------------------------------------------- finding 2
def finding_2():
    """A definition message that the filter expression rejects is read (sections 0-3) and skipped,
    but its definitions are not registered: the data messages that follow cannot be decoded."""
    reset()
    dx = dx_message(b_entries=[B(48001, 'E', 'NUMERIC', 1, -5, 8)], d_entries=[(348001, 'S', [48001, 48001])])
    data = message([348001], W().u(5, 8).u(6, 8).bits(), data_category=243)
    ref = [values(m) for m in scan(dx + data) if m.data_category.value == 243]  # without filter: fine
    reset()
    try:
        got = [values(m) for m in scan(dx + data, filter_expr='${%data_category} == 243')]
    except Exception as e:
        got = '{}: {}'.format(type(e).__name__, e)
    hand = (ref == [[0.0, 0.1]] and got != ref)

    reset()
    with open(PREPBUFR, 'rb') as ins:
        s = ins.read()
    n_ref = len([m for m in scan(s) if m.data_category.value != 11])
    reset()
    try:
        got_file = len(scan(s, filter_expr='${%data_category} != 11'))
    except Exception as e:
        got_file = '{}: {}'.format(type(e).__name__, e)
    file_ = (got_file != n_ref)
    report(2, 'definition message rejected by filter_expr is not registered, following data messages fail',
           hand and file_,
           'hand-packed: without filter {}\n             with filter    {}\n'
           'prepbufr.bufr: data messages without filter {}, with filter "${{%data_category}} != 11": {}'.format(
               ref, got, n_ref, got_file))


# --------------------------------------------------------------------------- finding 3
def finding_3():
    """The definitions of one stream stay in force for every later stream of the process and
    override the local tables of the centre of a message that has nothing to do with them."""
    reset()
    p = os.path.join(os.path.dirname(pybufrkit.__file__), 'tables', '0', '98_0', '1', 'TableB.json')
    with open(p) as ins:
        local = json.load(ins)['049193']   # ECMWF local element: FLAG TABLE, 15 bits
    width = local[4]
    ecmwf = message([49193], W().u(5, width).bits(), centre=98, subcentre=0, ltv=1, data_category=12)
    before = scan(ecmwf)[0]
    before = (values(before), descriptors(before)[0].name)

    # an NCEP stream that defines 0 49 193 for its own purposes, scanned to its end
    ncep = dx_message(b_entries=[B(49193, 'NCEPTHING', 'NUMERIC', 0, 0, 8)]) + message([49193], W().u(7, 8).bits())
    assert values(scan(ncep)[1]) == [7]

    # a new stream (new call, new decoder) with the ECMWF message only
    after = scan(ecmwf, decoder=Decoder())[0]
    after = (values(after), descriptors(after)[0].name)
    report(3, 'definitions of a finished stream override local tables in later, unrelated streams',
           before == ([5], local[0]) and after != before,
           'ECMWF message 049193 (local table: {!r}, {} bits)\n  decoded before the NCEP stream: {}\n'
           '  decoded after the NCEP stream:  {}'.format(local[0], width, before, after))


# --------------------------------------------------------------------------- finding 4
def finding_4():
    """255 entries in one definition message (or 255 members of one sequence): the count is the 8-bit
    0 31 001 whose value 255 is taken as 'missing' and the definition message cannot be read."""
    reset()
    bs = [B(48000 + i, 'E%d' % i, 'NUMERIC', 0, 0, 8) for i in range(1, 256)]
    data = message([48255], W().u(5, 8).bits(), data_category=243)
    try:
        got255 = values(scan(dx_message(b_entries=bs) + data)[1])
    except Exception as e:
        got255 = '{}: {}'.format(type(e).__name__, e)
    reset()
    data = message([48254], W().u(5, 8).bits(), data_category=243)
    got254 = values(scan(dx_message(b_entries=bs[:254]) + data)[1])
    report(4, 'a definition message with exactly 255 Table B entries cannot be read (count 255 = "missing")',
           got254 == [5] and got255 != [5],
           '254 entries: {}\n255 entries: {}'.format(got254, got255))


# --------------------------------------------------------------------------- finding 5
def finding_5():
    """Same root as finding 2, other door: an info_only scan (what `pybufrkit info -m -t` does) reads the
    definition message but never registers it, so the template built for a following message
    consists of undefined descriptors (edge of the scope: nothing is 'decoded' in an info scan)."""
    reset()
    dx = dx_message(b_entries=[B(48001, 'E', 'NUMERIC', 1, -5, 8)], d_entries=[(348001, 'S', [48001, 48001])])
    data = message([348001], W().u(5, 8).u(6, 8).bits(), data_category=243)
    ms = scan(dx + data, info_only=True)
    template, _ = ms[1].build_template(None)
    info_types = [type(d).__name__ for d in template.members]
    reset()
    ms = scan(dx + data)
    template, _ = ms[1].build_template(None)
    full_types = [type(d).__name__ for d in template.members]
    report(5, 'info_only scan: template of a message after the definition message has undefined descriptors '
              '(edge of scope)',
           full_types == ['SequenceDescriptor'] and info_types != full_types,
           'template members after a full scan: {}\ntemplate members after an info_only scan: {}'.format(
               full_types, info_types))


if __name__ == '__main__':
    print('pybufrkit from', os.path.dirname(pybufrkit.__file__))
    for f in (finding_1, finding_2, finding_3, finding_4, finding_5):
        try:
            f()
        except Exception as e:  # a crash of the reproduction itself
            import traceback
            traceback.print_exc()
            print('FINDING {}: reproduction crashed ({}: {}) -> NOT REPRODUCED'.format(
                f.__name__.split('_')[1], type(e).__name__, e))
