"""
C17 - reproductions against the unchanged worktree.

Run as:  cd /tmp/wt_r9_C17k && PYTHONPATH=/tmp/wt_r9_C17k /venv/bin/python SEEDED/C17k/repro.py

All inputs are hand-packed here (no files needed except a temp file for the CLI part).
"""
from __future__ import print_function

import contextlib
import io
import os
import signal
import subprocess
import sys
import tempfile

import pybufrkit
from pybufrkit.decoder import Decoder, generate_bufr_message
from pybufrkit.errors import PyBufrKitError, MetadataExprParsingError
from pybufrkit.mdquery import MetadataExprParser, MetadataQuerent
from pybufrkit.script import ScriptRunner

ROOT = os.path.dirname(os.path.dirname(os.path.abspath(pybufrkit.__file__)))


# ---------------------------------------------------------------------------------------------
# hand-packed messages
# ---------------------------------------------------------------------------------------------
def u(n, v):
    return v.to_bytes(n, 'big')


def build(edition=4, sec2=None, descs=(1001, 1002), data=b'\x12\x34\x80', total=None, s4len=None):
    """One subset of 001001 (7 bits) 001002 (10 bits); sections 0-3 always intact.

    sec2  : None (section 2 absent) or the local bytes of section 2
    total : override of the total length declared in section 0
    s4len : override of the length declared in the header of section 4
    """
    flag = 0x80 if sec2 is not None else 0
    if edition == 4:
        body = (u(1, 0) + u(2, 98) + u(2, 0) + u(1, 3) + u(1, flag) + u(1, 2) + u(1, 4) + u(1, 5) + u(1, 13) + u(1, 0)
                + u(2, 2021) + bytes([6, 7, 8, 9, 10]))
    elif edition == 3:
        body = (u(1, 0) + u(1, 0) + u(1, 98) + u(1, 3) + u(1, flag) + u(1, 2) + u(1, 5) + u(1, 13) + u(1, 0)
                + bytes([21, 6, 7, 8, 9, 10]))
    else:
        body = (u(1, 0) + u(2, 98) + u(1, 3) + u(1, flag) + u(1, 2) + u(1, 5) + u(1, 13) + u(1, 0)
                + bytes([21, 6, 7, 8, 9, 10]))
    s1 = u(3, len(body) + 3) + body
    s2 = b'' if sec2 is None else u(3, 4 + len(sec2)) + b'\x00' + sec2
    d = b''.join(u(2, ((x // 100000) << 14) | (((x // 1000) % 100) << 8) | (x % 1000)) for x in descs)
    b3 = b'\x00' + u(2, 1) + u(1, 0x80) + d
    if edition < 4 and (len(b3) + 3) % 2:
        b3 += b'\x00'
    s3 = u(3, len(b3) + 3) + b3
    s4 = u(3, (4 + len(data)) if s4len is None else s4len) + b'\x00' + data
    rest = s1 + s2 + s3 + s4 + b'7777'
    n = 8 + len(rest)
    return b'BUFR' + u(3, n if total is None else total) + u(1, edition) + rest


def sections_0_to_3(m):
    return [(s.get_metadata('index'), [(p.name, p.value) for p in s])
            for s in m.sections if s.get_metadata('index') <= 3]


class Timeout(Exception):
    pass


def _alarm(signum, frame):
    raise Timeout()


signal.signal(signal.SIGALRM, _alarm)

dec = Decoder()
querent = MetadataQuerent(MetadataExprParser())
CASES = [(ed, s2) for ed in (2, 3, 4) for s2 in (None, b'ab')]


def report(n, what, reproduced, details):
    for d in details[:8]:
        print('    ' + d)
    print('FINDING {}: {} -> {}'.format(n, what, 'REPRODUCED' if reproduced else 'NOT REPRODUCED'))


# ---------------------------------------------------------------------------------------------
# 1. metadata-only decoding of a message that is cut off inside its data
# ---------------------------------------------------------------------------------------------
def finding_1():
    details, hits = [], 0
    for ed, s2 in CASES:
        good = build(ed, s2)
        expected = sections_0_to_3(dec.process(good))  # full decode of the intact message
        damaged = good[:-5]  # drops '7777' and the last octet of the data: sections 0-3 and the header of 4 intact
        try:
            got = sections_0_to_3(dec.process(damaged, info_only=True))
            if got != expected:
                hits += 1
                details.append('ed {} sec2 {}: values differ'.format(ed, s2 is not None))
        except PyBufrKitError as e:
            hits += 1
            details.append('ed {} sec2 {}: info_only raised: {}'.format(ed, s2 is not None, e))
    # evidence that the intact data section is consumed too
    m = dec.process(build(4), info_only=True)
    details.append('intact ed 4 message of {} octets: info_only consumed {} octets (all of section 4)'.format(
        m.length.value, len(m.serialized_bytes)))
    report(1, 'info_only decode of a message truncated inside its data section fails '
              '(the data section IS read/skipped) [{} of {} cases]'.format(hits, len(CASES)), hits > 0, details)


# ---------------------------------------------------------------------------------------------
# 2. metadata-only decoding of a message whose section 4 declares a damaged length
# ---------------------------------------------------------------------------------------------
def finding_2():
    details, hits, n = [], 0, 0
    for ed, s2 in CASES:
        expected = sections_0_to_3(dec.process(build(ed, s2)))
        for s4len in (0, 3, 200, 0xFFFFFF):
            n += 1
            try:
                got = sections_0_to_3(dec.process(build(ed, s2, s4len=s4len), info_only=True))
                if got != expected:
                    hits += 1
            except PyBufrKitError as e:
                hits += 1
                if ed == 3 and s2 is None:
                    details.append('ed 3, section 4 length {}: info_only raised: {}'.format(s4len, e))
    report(2, 'info_only decode fails when only the length octets of section 4 are damaged '
              '[{} of {} cases]'.format(hits, n), hits > 0, details)


# ---------------------------------------------------------------------------------------------
# 3. metadata-only scan of a stream: the damaged message is not cut out by its declared total length
# ---------------------------------------------------------------------------------------------
def finding_3():
    details = []
    msgs = [build(2), build(3, s4len=200), build(4, b'xy')]
    stream = b''.join(msgs)
    want = msgs  # every message declares its true total length in section 0

    def scan(**kw):
        out = []
        try:
            with contextlib.redirect_stderr(io.StringIO()):
                for m in generate_bufr_message(dec, stream, info_only=True, **kw):
                    out.append(m.serialized_bytes)
            return out, None
        except PyBufrKitError as e:
            return out, e

    got1, err1 = scan()
    got2, err2 = scan(continue_on_error=True)
    details.append('plain scan: {} of 3 messages, then: {}'.format(len(got1), err1))
    details.append('continue_on_error: {} of 3 messages (the damaged one is dropped), bytes right: {}'.format(
        len(got2), got2 == want))
    report(3, 'info_only stream scan aborts at / drops a message whose data section is damaged instead of '
              'taking its bytes from the declared total length', got1 != want or got2 != want, details)


# ---------------------------------------------------------------------------------------------
# 4. metadata-only scan never terminates on a declared total length of zero
# ---------------------------------------------------------------------------------------------
def finding_4():
    details = []
    stream = build(3, total=0) + build(4)
    n_signatures = stream.count(b'BUFR')
    count, runaway = 0, False
    signal.alarm(20)
    try:
        for m in generate_bufr_message(dec, stream, info_only=True):
            count += 1
            if count > 50 * n_signatures:
                runaway = True
                break
    except (PyBufrKitError, Timeout) as e:
        details.append('ended with {!r}'.format(e))
    finally:
        signal.alarm(0)
    details.append('stream holds {} start signatures; the scan yielded {} messages before it was stopped; '
                   'each has serialized_bytes == b"" and the position never advances'.format(n_signatures, count))
    report(4, 'info_only stream scan loops forever on a message declaring total length 0', runaway, details)


# ---------------------------------------------------------------------------------------------
# 5. '%stop_signature' / '%5.stop_signature' / '%template_data' through query / script / --filter
# ---------------------------------------------------------------------------------------------
def finding_5():
    details = []
    good = build(4, b'xy')
    full = dec.process(good)
    lib = [querent.query(full, e) for e in ('%stop_signature', '%5.stop_signature')]
    details.append('MetadataQuerent on the full decode: {}'.format(lib))

    fd, path = tempfile.mkstemp(suffix='.bufr')
    os.write(fd, good)
    os.close(fd)
    env = dict(os.environ, PYTHONPATH=ROOT, PYTHONDONTWRITEBYTECODE='1')
    answers = []
    try:
        for e in ('%stop_signature', '%5.stop_signature', '%template_data'):
            p = subprocess.run([sys.executable, '-m', 'pybufrkit', 'query', e, path], env=env, cwd=ROOT,
                               stdout=subprocess.PIPE, stderr=subprocess.PIPE, timeout=60)
            answers.append(p.stdout.decode().strip().splitlines()[-1:])
    finally:
        os.unlink(path)
    details.append("'pybufrkit query' answers for %stop_signature, %5.stop_signature, %template_data: {}".format(answers))

    # what 'pybufrkit script' does
    sr = ScriptRunner('x = ${%5.stop_signature}')
    m = dec.process(good, info_only=sr.metadata_only)
    x = sr.run(m)['x']
    details.append("script 'x = ${{%5.stop_signature}}': metadata_only={} x={!r}".format(sr.metadata_only, x))

    # what 'pybufrkit decode -m --filter' does
    with contextlib.redirect_stderr(io.StringIO()):
        kept = list(generate_bufr_message(dec, good + good, filter_expr="${%5.stop_signature} == b'7777'"))
    details.append("filter ${{%5.stop_signature}} == b'7777' keeps {} of 2 messages".format(len(kept)))

    reproduced = (lib == [b'7777', b'7777'] and answers[:2] == [['None'], ['None']] and x is None and len(kept) == 0)
    report(5, "names of sections 4 and 5 ('%stop_signature', '%5.stop_signature', '%template_data') are answered "
              "None by query / script / --filter although the message holds them", reproduced, details)


# ---------------------------------------------------------------------------------------------
# 6. a section index that is not a number: '0_0', '1_0'
# ---------------------------------------------------------------------------------------------
def finding_6():
    details, hits = [], 0
    m = dec.process(build(4))
    for expr in ('%0_0.length', '%1_0.year', '%0_1.year'):
        try:
            v = querent.query(m, expr)
            hits += 1
            details.append('{!r} is answered with {!r} instead of MetadataExprParsingError'.format(expr, v))
        except MetadataExprParsingError:
            pass
    report(6, "section index with underscores ('%0_0.length', '%0_1.year') is accepted as a number "
              "(minor, arguable)", hits > 0, details)


if __name__ == '__main__':
    print('pybufrkit imported from', pybufrkit.__file__)
    for f in (finding_1, finding_2, finding_3, finding_4, finding_5, finding_6):
        f()
