#!/usr/bin/env python
"""
C13 (no hidden state) - reproduction of what the hunt C13k found in the unchanged worktree.

Run as:  cd /tmp/wt_r9_C13k && PYTHONPATH=/tmp/wt_r9_C13k /venv/bin/python SEEDED/C13k/repro.py

Result of the hunt: no input was found for which the result of decoding / encoding / querying / rendering a
message depends on what the decoder, the encoder or the process handled before (see findings.md for the attacks
that were executed).  The one thing that did turn up is hidden state INSIDE one message: TemplateData.wire() keeps
three attributes from one subset to the next.  It is reproduced here as finding 1; whether it is in the scope of
C13 (which is worded for histories of messages and operations) is discussed in findings.md.

The messages are packed by hand, nothing but the worktree is needed.
"""
from __future__ import print_function

import sys

from pybufrkit.decoder import Decoder
from pybufrkit.renderer import NestedTextRenderer


# ------------------------------------------------------------------------------------------------- bit packing
class Bits(object):
    def __init__(self, s=''):
        self.s = s

    def u(self, value, nbits):
        self.s += format(value, '0{}b'.format(nbits))
        return self

    def __add__(self, other):
        return Bits(self.s + other.s)

    def to_bytes(self):
        s = self.s + '0' * (-len(self.s) % 8)
        return bytes(bytearray(int(s[i:i + 8], 2) for i in range(0, len(s), 8)))


def u(n, v):
    return bytes(bytearray((v >> (8 * (n - 1 - i))) & 255 for i in range(n)))


def message(ids, bits, n_subsets):
    """Edition 4, master table version 33, no local tables, uncompressed."""
    s1 = u(3, 22) + u(1, 0) + u(2, 0) + u(2, 0) + u(1, 0) + u(1, 0) + u(1, 0) + u(1, 0) + u(1, 0) + u(1, 33) + u(1, 0) + \
        u(2, 2020) + u(1, 1) + u(1, 2) + u(1, 3) + u(1, 4) + u(1, 5)
    b3 = u(1, 0) + u(2, n_subsets) + u(1, 0x80) + b''.join(
        u(2, ((i // 100000) << 14) | (((i // 1000) % 100) << 8) | (i % 1000)) for i in ids)
    s3 = u(3, 3 + len(b3)) + b3
    b4 = u(1, 0) + bits.to_bytes()
    s4 = u(3, 3 + len(b4)) + b4
    return b'BUFR' + u(3, 8 + len(s1) + len(s3) + len(s4) + 4) + u(1, 4) + s1 + s3 + s4 + b'7777'


def data_section(decoder, s):
    """Nested text of section 4 of the message, or the exception of wire()."""
    m = decoder.process(s, wire_template_data=False)
    try:
        m.wire()
    except Exception as e:
        return '{}: {}'.format(type(e).__name__, e)
    text = NestedTextRenderer().render(m)
    return text[text.index('###### subset'):text.index('<<<<<< section 5')]


def subset_text(text, k, n):
    start = text.index('###### subset {} of {} ######'.format(k, n))
    nxt = text.find('###### subset', start + 5)
    return text[start:nxt if nxt >= 0 else len(text)].split('\n', 1)[1]


# ------------------------------------------------------------------------------------------------- finding 1
def finding_1():
    """
    204008 101000 031001 031021 012001 204000, two subsets, not compressed.
      subset A: replication factor 1, 031021 = 1, associated field 5, 012001 = 273.1
      subset B: replication factor 0,             associated field 7, 012001 = 280.0
    B alone cannot be wired (no 031021 was met).  B after A is wired with the 031021 node of subset A, which is
    then shown with the descriptor and value found at that index in subset B.
    The same with 224000 ... 008023 224255 (first_order_stats_meaning).
    """
    decoder = Decoder()
    ok = True

    ids = [204008, 101000, 31001, 31021, 12001, 204000]
    a = Bits().u(1, 8).u(1, 6).u(5, 8).u(2731, 12)
    b = Bits().u(0, 8).u(7, 8).u(2800, 12)
    alone = data_section(decoder, message(ids, b, 1))
    after = data_section(decoder, message(ids, a + b, 2))
    before = data_section(decoder, message(ids, b + a, 2))
    print('  associated field, subset B alone   :', alone)
    print('  associated field, subsets B, A     :', before)
    print('  associated field, subsets A, B -> B:')
    b_after = subset_text(after, 2, 2) if 'subset 2 of 2' in after else after
    for line in b_after.rstrip('\n').split('\n'):
        print('      ' + line)
    ok &= alone.startswith('AttributeError') and before.startswith('AttributeError')
    ok &= '-> A12001 ValueData 7' in b_after   # the node of subset A, shown with what subset B has at its index

    ids = [12001, 224000, 236000, 101001, 31031, 101000, 31001, 8023, 224255]
    a = Bits().u(2731, 12).u(0, 1).u(1, 8).u(4, 6).u(2700, 12)
    b = Bits().u(2800, 12).u(0, 1).u(0, 8).u(2750, 12)
    alone = data_section(decoder, message(ids, b, 1))
    after = data_section(decoder, message(ids, a + b, 2))
    b_after = subset_text(after, 2, 2) if 'subset 2 of 2' in after else after
    print('  first order statistics, subset B alone   :', alone)
    print('  first order statistics, subsets A, B -> B:')
    for line in b_after.rstrip('\n').split('\n'):
        print('      ' + line)
    ok &= alone.startswith('AttributeError')
    ok &= '        -> F12001 224255 275.0' in b_after  # the 008023 node of subset A, shown as the marker of subset B

    # difference statistics: 225255 has one bit more and the reference value -2**12
    ids = [12001, 225000, 236000, 101001, 31031, 101000, 31001, 8024, 225255]
    a = Bits().u(2731, 12).u(0, 1).u(1, 8).u(2, 6).u(4096 + 5, 13)
    b = Bits().u(2800, 12).u(0, 1).u(0, 8).u(4096 - 5, 13)
    alone = data_section(decoder, message(ids, b, 1))
    after = data_section(decoder, message(ids, a + b, 2))
    b_after = subset_text(after, 2, 2) if 'subset 2 of 2' in after else after
    print('  difference statistics, subset B alone   :', alone)
    print('  difference statistics, subsets A, B -> B:')
    for line in b_after.rstrip('\n').split('\n'):
        print('      ' + line)
    ok &= alone.startswith('AttributeError')
    ok &= '        -> D12001 225255 -0.5' in b_after
    return ok


def main():
    results = [
        (1, 'wire() of subset k+1 uses the 031021 / 008023 / 008024 meaning nodes kept from subset k '
            '(alone: AttributeError; after another subset: a foreign node with wrong label and value) '
            '[hidden state inside one message - scope of C13 uncertain]', finding_1),
    ]
    for n, what, func in results:
        try:
            ok = func()
        except Exception as e:  # pragma: no cover
            print('  unexpected {}: {}'.format(type(e).__name__, e))
            ok = False
        print('FINDING {}: {} -> {}'.format(n, what, 'REPRODUCED' if ok else 'NOT REPRODUCED'))


if __name__ == '__main__':
    import pybufrkit
    print('pybufrkit from', pybufrkit.__file__, file=sys.stderr)
    main()
