#!/usr/bin/env python
"""
C12k - reproduction of the findings against the unchanged worktree.

Run as:  cd /tmp/wt_r9_C12k && PYTHONPATH=/tmp/wt_r9_C12k /venv/bin/python SEEDED/C12k/repro.py
         (add --observations to also run the two checks that are outside the quantified fault set)

All inputs are hand-packed here (edition 4 messages) except tests/data/uegabe.bufr (finding 2b).
"""
from __future__ import print_function

import contextlib
import io
import os
import signal
import struct
import sys

import pybufrkit
from pybufrkit.decoder import Decoder, generate_bufr_message
from pybufrkit.errors import PyBufrKitError

HERE = os.path.dirname(os.path.abspath(__file__))
ROOT = os.path.dirname(os.path.dirname(HERE))


# --------------------------------------------------------------------------- message builder
class Bits(object):
    def __init__(self):
        self.b = ''

    def u(self, v, n):
        if n:
            self.b += format(v, '0{}b'.format(n))
        return self

    def s(self, bs):
        for c in bytearray(bs):
            self.u(c, 8)
        return self

    def bytes(self):
        b = self.b + '0' * (-len(self.b) % 8)
        return bytes(bytearray(int(b[i:i + 8], 2) for i in range(0, len(b), 8)))


def u24(n):
    return struct.pack('>I', n)[1:]


def fxy(x):
    return struct.pack('>H', ((x // 100000) << 14) | (((x // 1000) % 100) << 8) | (x % 1000))


def msg(descs, data, n_subsets=1, compressed=False, sec2=None, cat=0, mtv=29):
    """A complete edition 4 message."""
    flag = 0x80 if sec2 is not None else 0
    s1 = (u24(22) + b'\0' + struct.pack('>HH', 0, 0) + bytes(bytearray([0, flag, cat, 0, 0, mtv, 0])) +
          struct.pack('>H', 2020) + bytes(bytearray([1, 2, 3, 4, 5])))
    s2 = b'' if sec2 is None else u24(4 + len(sec2)) + b'\0' + sec2
    d = b''.join(fxy(x) for x in descs)
    s3 = u24(7 + len(d)) + b'\0' + struct.pack('>H', n_subsets) + bytes(bytearray([0x80 | (0x40 if compressed else 0)])) + d
    s4 = u24(4 + len(data)) + b'\0' + data
    body = s1 + s2 + s3 + s4 + b'7777'
    return b'BUFR' + u24(8 + len(body)) + b'\x04' + body


def be(b):
    return struct.unpack('>I', b'\0' + bytes(b))[0]


def offsets(m):
    """{section index: (start offset, declared length)} of an edition 4 message"""
    o = {0: (0, 8)}
    p = 8
    l1 = be(m[p:p + 3])
    o[1] = (p, l1)
    has2 = bytearray(m)[p + 9] & 0x80
    p += l1
    if has2:
        o[2] = (p, be(m[p:p + 3]))
        p += o[2][1]
    for k in (3, 4):
        o[k] = (p, be(m[p:p + 3]))
        p += o[k][1]
    o[5] = (p, 4)
    return o


def set_len(m, sec, delta):
    """damage: declared length of one section changed by delta; the total length stays intact"""
    p, l = offsets(m)[sec]
    return m[:p] + u24(l + delta) + m[p + 3:]


def set_desc(m, idx, new):
    """damage: descriptor number idx of section 3 substituted"""
    p = offsets(m)[3][0] + 7 + 2 * idx
    return m[:p] + fxy(new) + m[p + 2:]


def kill_stop(m):
    return m[:-4] + b'XXXX'


def set_total(m, n):
    return m[:4] + u24(n) + m[7:]


# --------------------------------------------------------------------------- scan helpers
@contextlib.contextmanager
def quiet():
    old = sys.stderr
    sys.stderr = io.StringIO() if sys.version_info[0] >= 3 else io.BytesIO()
    try:
        yield
    finally:
        sys.stderr = old


class Timeout(BaseException):
    pass


def _on_alarm(*_):
    raise Timeout()


signal.signal(signal.SIGALRM, _on_alarm)


def scan(decoder, s, limit=30, seconds=5, **kw):
    """
    (list of the serialized bytes of the delivered messages, outcome) where outcome is None (scan
    ended normally), 'ENDLESS' (more than `limit` messages delivered), 'HANG' (nothing happened for
    `seconds`) or the exception that escaped.
    """
    out = []
    signal.alarm(seconds)
    try:
        with quiet():
            for m in generate_bufr_message(decoder, s, **kw):
                out.append(m.serialized_bytes)
                if len(out) >= limit:
                    return out, 'ENDLESS'
    except Timeout:
        return out, 'HANG'
    except BaseException as e:
        return out, e
    finally:
        signal.alarm(0)
    return out, None


def tag(out, names):
    return ''.join(names.get(x, '?') for x in out) or '-'


def report(n, what, ok, detail):
    print('FINDING {}: {} [{}] -> {}'.format(n, what, detail, 'REPRODUCED' if ok else 'NOT REPRODUCED'))


# --------------------------------------------------------------------------- common messages
A = msg([1001, 1002], Bits().u(5, 7).u(77, 10).bytes())
B = msg([1001, 1002], Bits().u(6, 7).u(78, 10).bytes())
C = msg([1001, 1002], Bits().u(7, 7).u(79, 10).bytes())
P = msg([1001, 1002], Bits().u(9, 7).u(99, 10).bytes())  # the message that gets embedded
NAMES = {A: 'A', B: 'B', C: 'C', P: 'P'}


def finding_1():
    """
    After a failed message the scanner looks for the next 'BUFR' from idx+1 (always so when scanning
    info-only; when scanning in full whenever the info-only re-decode fails as well, e.g. for a
    section 1 length that was decreased). The next 'BUFR' can stand INSIDE the damaged message.
    Demanded: the damaged message is skipped and every other message is delivered unchanged and in order.
    Repair: in the except branch of generate_bufr_message take the declared total length straight from
    section 0 (s[idx+4:idx+7]) and advance by it whenever 12 <= length and idx+length <= len(s), for
    info-only and full scanning alike; step by one octet only otherwise. Never advance by less than 8.
    """
    dec = Decoder()
    res = []
    ok_all = True

    # (a) the damaged message carries another message as payload: section 2 (local use) or character data (205YYY)
    for name, M in (('sec2', msg([1001, 1002], Bits().u(6, 7).u(78, 10).bytes(), sec2=b'xx' + P + b'yy')),
                    ('205YYY', msg([205000 + len(P)], P))):
        assert scan(dec, A + M + C)[0] == [A, M, C], 'the undamaged stream must be delivered as it is'
        D = set_len(M, 1, -1)  # section 1 length 22 -> 21, total length intact
        for info in (False, True):
            out, oc = scan(dec, A + D + C, continue_on_error=True, info_only=info)
            t = tag(out, NAMES)
            res.append('a/{}/{}:{}'.format(name, 'info' if info else 'full', t))
            ok_all &= (t == 'APC' and oc is None)  # demanded: 'AC'

    # (b) the embedded message declares a total length that reaches over the following valid message C
    M = msg([1001, 1002], Bits().u(6, 7).u(78, 10).bytes(), sec2=b'xx' + P + b'yy')
    tail = len(M) - (offsets(M)[2][0] + 4 + 2 + len(P))  # what is left of M behind the embedded message
    Pbig = set_total(P, len(P) + tail + len(C))
    M = msg([1001, 1002], Bits().u(6, 7).u(78, 10).bytes(), sec2=b'xx' + Pbig + b'yy')
    assert scan(dec, A + M + C + B)[0] == [A, M, C, B]
    D = set_len(M, 1, -1)
    for info in (False, True):
        out, oc = scan(dec, A + D + C + B, continue_on_error=True, info_only=info)
        t = tag(out, NAMES)
        res.append('b/{}:{}'.format('info' if info else 'full', t))
        ok_all &= ('C' not in t and t.startswith('A') and t.endswith('B') and oc is None)  # demanded: 'ACB'

    # (c) the embedded message declares a total length of zero: the scan never ends
    P0 = set_total(P, 0)
    M = msg([1001, 1002], Bits().u(6, 7).u(78, 10).bytes(), sec2=b'xx' + P0 + b'yy')
    assert scan(dec, A + M + C)[0] == [A, M, C]
    D = set_len(M, 1, -1)
    for info in (False, True):
        out, oc = scan(dec, A + D + C, continue_on_error=True, info_only=info)
        res.append('c/{}:{}'.format('info' if info else 'full', oc))
        ok_all &= oc in ('HANG', 'ENDLESS')

    report(1, "scan resumes at idx+1 and finds a 'BUFR' inside the damaged message: phantom message delivered (a), "
              "later valid message lost (b), scan never ends (c)", ok_all, ' '.join(res))


def finding_2():
    """
    An undefined descriptor that stands where the data never lead (delayed replication executed zero
    times, zero subsets) is not noticed by the interpreting decoder; the compiling decoder refuses it.
    (tables.py hands out Undefined*Descriptor placeholders, the error is raised only when
    Coder.process_members meets one while processing data.)
    Demanded: a message with an undefined descriptor substituted at ANY position of section 3 is skipped /
    reported as PyBufrKitError.
    Repair: after build_template in Decoder.process_template_data walk the template once (members of
    sequences and replications, factors of delayed replications) and raise UnknownDescriptor for the first
    undefined placeholder, except for the one member that follows a 206YYY operator.
    """
    res = []
    ok_all = True
    cases = []
    U = msg([1001, 101000, 31001, 12001], Bits().u(5, 7).u(0, 8).bytes())
    cases.append(('elem under 0-times replication', U, set_desc(U, 3, 12250)))
    cases.append(('seq under 0-times replication', U, set_desc(U, 3, 363255)))
    Uc = msg([1001, 101000, 31001, 12001], Bits().u(5, 7).u(0, 6).u(0, 8).u(0, 6).bytes(), n_subsets=3, compressed=True)
    cases.append(('compressed', Uc, set_desc(Uc, 3, 12250)))
    Z = msg([1001, 1002], b'', n_subsets=0)
    cases.append(('zero subsets', Z, set_desc(Z, 1, 1250)))
    with open(os.path.join(ROOT, 'tests', 'data', 'uegabe.bufr'), 'rb') as ins:
        s = ins.read()
    X = s[s.find(b'BUFR'):]
    X = Decoder().process(X).serialized_bytes
    cases.append(('tests/data/uegabe.bufr descriptor 7 of 7', X, set_desc(X, 6, 63255)))

    for name, good, D in cases:
        interp, compiled = Decoder(), Decoder(compiled_template_cache_max=10)
        assert scan(interp, A + good + C, seconds=20)[0] == [A, good, C]
        names = dict(NAMES)
        names[D] = 'D'
        out_i, oc_i = scan(interp, A + D + C, seconds=20, continue_on_error=True)
        out_n, oc_n = scan(interp, A + D + C, seconds=20)  # without continue-on-error: PyBufrKitError demanded after A
        out_c, oc_c = scan(compiled, A + D + C, seconds=20, continue_on_error=True)
        res.append('{}: interpreted={} no-continue={}/{} compiled={}'.format(
            name, tag(out_i, names), tag(out_n, names), type(oc_n).__name__, tag(out_c, names)))
        ok_all &= (tag(out_i, names) == 'ADC' and oc_i is None and oc_n is None and tag(out_c, names) == 'AC')
    report(2, 'undefined descriptor substituted where the data never lead is not detected by the interpreting decoder '
              '(damaged message D delivered, no error without continue-on-error; the compiling decoder skips it)',
           ok_all, '; '.join(res))


def finding_3():
    """
    A well-formed message of data category 11 whose character fields are not what the table-definition
    processor expects makes a non-library exception escape from generate_bufr_message, continue-on-error
    or not. The rest of the stream is lost and the command line shows a traceback.
    (BufrTableDefinitionProcessor runs outside Decoder.process, only AssertionError is guarded: int('') on
    the scale / reference / width texts, value.decode() as UTF-8 on every character value.)
    Scope: not one of the four damage kinds of the property - it is the "library's own error type / every
    other message is delivered" half of it; same seam as b517414 (C11).
    Repair: inside the try of generate_bufr_message turn any non-library exception of the table-definition
    step into PyBufrKitError; decode the character values as latin-1.
    """
    from pybufrkit.tables import TableGroupCacheManager

    def pad(t, n):
        return t.ljust(n).encode('latin-1')[:n]

    descs = [103001, 1, 2, 3, 111001, 10, 11, 12, 13, 14, 15, 16, 17, 18, 19, 20,
             107000, 31001, 10, 11, 12, 205064, 101000, 31001, 30]

    def tabmsg(scale, name):
        b = Bits()
        b.s(pad('001', 3)).s(pad('LINE ONE', 32)).s(pad('LINE TWO', 32))
        b.s(b'0').s(b'63').s(b'250').s(name).s(pad('', 32)).s(pad('NUMERIC', 24))
        b.s(b'+').s(pad(scale, 3)).s(b'+').s(pad('0', 10)).s(pad('8', 3))
        b.u(0, 8)
        return msg(descs, b.bytes(), cat=11)

    dec = Decoder()
    res = []
    ok_all = True
    try:
        good = tabmsg('0', pad('SOME ELEMENT', 32))
        assert scan(dec, A + good + C, continue_on_error=True)[0] == [A, good, C]
        for name, T in (('blank scale', tabmsg('', pad('SOME ELEMENT', 32))),
                        ('latin-1 degree sign in the element name', tabmsg('0', pad(u'TEMPERATURE \xb0C', 32)))):
            assert Decoder().process(T).serialized_bytes == T  # the message itself decodes
            out, oc = scan(dec, A + T + C, continue_on_error=True)
            res.append('{}: delivered={} escaped={}'.format(name, tag(out, NAMES), type(oc).__name__))
            ok_all &= (isinstance(oc, Exception) and not isinstance(oc, PyBufrKitError) and C not in out)
            # command line
            path = os.path.join(HERE, '_f3.bufr')
            with open(path, 'wb') as outs:
                outs.write(A + T + C)
            argv, so, se = sys.argv, sys.stdout, sys.stderr
            sys.argv = ['pybufrkit', 'decode', '-m', '--continue-on-error', path]
            sys.stdout, sys.stderr = io.StringIO(), io.StringIO()
            try:
                pybufrkit.main()
                cli = 'no traceback'
            except Exception as e:
                cli = 'traceback ' + type(e).__name__
            finally:
                sys.argv, sys.stdout, sys.stderr = argv, so, se
                os.remove(path)
            res[-1] += ' cli={}'.format(cli)
            ok_all &= cli.startswith('traceback')
    finally:
        # do not leave the entries registered by the good definition message behind
        TableGroupCacheManager._TABLE_GROUP_CACHE.extra_b_entries.clear()
        TableGroupCacheManager._TABLE_GROUP_CACHE.extra_d_entries.clear()
        TableGroupCacheManager.invalidate()
    report(3, 'category 11 message with unexpected text: ValueError / UnicodeDecodeError escapes the scan despite '
              'continue-on-error, later message C lost, traceback on the command line', ok_all, '; '.join(res))


def finding_4():
    """
    Info-only decoding walks to the end of section 4 but never looks at section 5 and never compares the
    sections with the declared total length: damage there is delivered, and proper prefixes decode.
    Scope uncertain: the property names "full and info-only scanning", but 68d6a2f excluded info-only from
    the total-length check on purpose and undefined descriptors are not looked at by an info-only scan either.
    Repair: let SectionConfigurer.info_configuration keep section 5 (drop only the template_data parameter of
    section 4, do not mark section 4 as end of message); then the stop signature is validated by the existing
    'expected' mechanism and the total-length check can drop its 'not info_only' condition.
    """
    dec = Decoder()
    U = msg([1001, 1002, 301011], Bits().u(6, 7).u(78, 10).u(2020, 12).u(1, 4).u(2, 6).bytes())
    res = []
    ok_all = True
    for name, D in (('stop signature', kill_stop(U)), ('sec4 len +1', set_len(U, 4, 1)), ('sec4 len -1', set_len(U, 4, -1)),
                    ('sec4 len +len(next message)', set_len(U, 4, len(C)))):
        names = dict(NAMES)
        names[D] = 'D'
        full, _ = scan(dec, A + D + C, continue_on_error=True)
        info, oc = scan(dec, A + D + C, continue_on_error=True, info_only=True)
        res.append('{}: full={} info={}'.format(name, tag(full, names), tag(info, names)))
        ok_all &= (tag(full, names) == 'AC' and tag(info, names) == 'ADC' and oc is None)
    prefixes = []
    for cut in range(len(U)):
        try:
            with quiet():
                dec.process(U[:cut], info_only=True)
            prefixes.append(cut)
        except PyBufrKitError:
            pass
    res.append('proper prefixes of a {}-octet message decoding info-only: {}'.format(len(U), prefixes))
    ok_all &= len(prefixes) > 0
    out, oc = scan(dec, A + U[:-2], info_only=True)
    res.append('stream ending in a message cut 2 octets short, info-only: {} messages, last has {} of {} octets'.format(
        len(out), len(out[-1]), len(U)))
    ok_all &= (len(out) == 2 and oc is None)
    report(4, 'info-only scanning delivers messages with an overwritten stop signature or a wrong section 4 length, '
              'and proper prefixes decode (scope uncertain, see the docstring)', ok_all, '; '.join(res))


def observations():
    dec = Decoder()
    Z0 = set_total(A, 0)
    r = []
    for info in (False, True):
        out, oc = scan(dec, A + Z0 + C, continue_on_error=True, info_only=info)
        r.append('{}:{}'.format('info' if info else 'full', oc))
    print('OBSERVATION 1 (total length damaged - outside the fault set): total length 0 never ends [{}]'.format(' '.join(r)))
    r = []
    for cut in (1, 2, 4, 5):
        out, oc = scan(dec, A + B[:-cut] + C + A, continue_on_error=True)
        r.append('cut {}: {}'.format(cut, tag(out, NAMES)))
    print('OBSERVATION 2 (message cut short in mid-stream - outside the fault set): the next valid message C is lost '
          '[{}]'.format('; '.join(r)))


if __name__ == '__main__':
    assert os.path.dirname(os.path.dirname(os.path.abspath(pybufrkit.__file__))) == ROOT, pybufrkit.__file__
    finding_1()
    finding_2()
    finding_3()
    finding_4()
    if '--observations' in sys.argv:
        observations()
