#!/bin/bash
# usage: tools/confirm_seeded.sh <worktree> <name in worktree/SEEDED> <id under /verif/seeded>
# Confirms an independently written change: demo passes on the clean worktree, patch applies, the test
# suite passes with it, demo fails with it; then copies patch.diff, demo.py, notes.md to seeded/<id>/.
wt=$1; name=$2; id=$3
set -u
cd "$wt" || exit 3
git checkout -q -- pybufrkit
run_demo() { (cd "$wt" && PYTHONPATH="$wt" PYTHONDONTWRITEBYTECODE=1 timeout 300 /venv/bin/python "SEEDED/$name/demo.py" >/tmp/confirm_demo.out 2>&1; echo $?); }
a=$(run_demo); echo "clean demo exit=$a"
git apply "SEEDED/$name/patch.diff" || { echo "PATCH DOES NOT APPLY"; exit 3; }
t=$(cd "$wt" && PYTHONPATH="$wt" timeout 1200 /venv/bin/python -m pytest -q -p no:cacheprovider tests 2>&1 | tail -1); echo "tests: $t"
c=$(run_demo); echo "patched demo exit=$c"; tail -5 /tmp/confirm_demo.out
git checkout -q -- pybufrkit
if [ "$a" = "0" ] && [ "$c" = "1" ] && echo "$t" | grep -q "45 passed"; then
  mkdir -p /verif/seeded/$id
  cp SEEDED/$name/patch.diff SEEDED/$name/demo.py /verif/seeded/$id/
  [ -f SEEDED/$name/notes.md ] && cp SEEDED/$name/notes.md /verif/seeded/$id/
  echo "CONFIRMED $id (clean=$a tests='$t' patched=$c)"
else
  echo "NOT CONFIRMED $id"
fi
