#!/bin/bash
# usage: tools/file_seeded.sh <round> <name e.g. C06i2> "<needs text>"   - confirms the change written in /tmp/wt_r<round>_<name>
# (tools/confirm_seeded.sh), writes seeded/s-<name>/meta.json and removes the scratch worktree.
round=$1; name=$2; needs=$3
wt=/tmp/wt_r${round}_$name; id=s-$name; prop=${name:0:3}
out=$(/verif/tools/confirm_seeded.sh $wt $name $id 2>&1); echo "$out" | tail -6
echo "$out" | grep -q "^CONFIRMED" || { echo "not filed"; exit 1; }
conf=$(echo "$out" | grep "^CONFIRMED")
/venv/bin/python - "$id" "$prop" "$needs" "$round" "$name" "$wt" <<'PY'
import json,sys
id_,prop,needs,rnd,name,wt=sys.argv[1:7]
meta={"property":prop,"needs":needs,
 "written_by":"independent sub-agent r%s-%s (round %s) given only the property text, the list of mechanisms earlier rounds had used (to avoid), a hint (round 8: two cooperating edits / multi-step sequence or unusual input; round 9: areas of the code earlier rounds had not touched) and its own worktree of /repo (round 8: 6213085, round 9: bba653a)"%(rnd,name,rnd),
 "confirmed":"tools/confirm_seeded.sh in the scratch worktree %s: demo.py exit 0 on the clean tree; git apply patch.diff; pytest tests -> 45 passed, 1 skipped; demo.py exit 1; git checkout -- pybufrkit"%wt,
 "demo_cmd":"/verif/seeded/run_demo.sh <id> [tree]   (exit 0 on the unchanged tree, exit 1 with patch.diff applied to the tree)",
 "expected_caught_by":[prop]}
json.dump(meta,open('/verif/seeded/%s/meta.json'%id_,'w'),indent=1)
PY
git -C /repo worktree remove --force $wt && echo "worktree removed"
