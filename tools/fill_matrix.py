#!/venv/bin/python
"""replace the matrix block of DESIGN.md section 14 (between the MATRIX markers, or the old placeholder) by the
output of tools/mutants_table.py"""
import os
import subprocess
HERE = os.path.dirname(os.path.dirname(os.path.abspath(__file__)))
tab = subprocess.run([os.path.join(HERE, 'tools', 'mutants_table.py')], stdout=subprocess.PIPE).stdout.decode()
p = os.path.join(HERE, 'DESIGN.md')
s = open(p).read()
block = '<!-- MATRIX-BEGIN -->\n' + tab + '<!-- MATRIX-END -->'
if 'MATRIX-PLACEHOLDER' in s:
    s = s.replace('MATRIX-PLACEHOLDER', block, 1)
else:
    a, b = s.index('<!-- MATRIX-BEGIN -->'), s.index('<!-- MATRIX-END -->') + len('<!-- MATRIX-END -->')
    s = s[:a] + block + s[b:]
open(p, 'w').write(s)
print(tab.strip().splitlines()[-1])
