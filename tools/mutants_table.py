#!/venv/bin/python
"""print the markdown catch matrix (DESIGN.md section 14) from selftest/mutants.json (+ seeded meta)"""
import json
import os
import sys

HERE = os.path.dirname(os.path.dirname(os.path.abspath(__file__)))
rep = json.load(open(sys.argv[1] if len(sys.argv) > 1 else os.path.join(HERE, 'selftest', 'mutants.json')))
rows = []
for r in rep['results']:
    meta = {}
    mp = os.path.join(HERE, 'seeded', r['id'], 'meta.json')
    if os.path.exists(mp):
        meta = json.load(open(mp))
    note = (r.get('note') or meta.get('needs') or r.get('why') or '')
    note = note.replace('|', '/').replace('\n', ' ')
    if len(note) > 150:
        note = note[:147] + '...'
    if r['status'] == 'killed':
        res = 'caught by ' + ', '.join(r['caught_by']) + (' (replay reproduces)' if r.get('replay_reproduces') else '')
    elif r['status'] == 'neutralised':
        res = 'no longer breaks the property (neutralised by a repair)'
    elif r['status'] == 'missed' and meta.get('known_missed'):
        res = 'not caught - not claimed (reason in meta.json)'
    else:
        res = r['status'].upper()
    rows.append((r['id'], meta.get('property') or ','.join(r.get('expected', [])), res, note))
print('| change | property | result (quick tier, default seed) | what it is / what it needs |')
print('|---|---|---|---|')
for row in rows:
    print('| `%s` | %s | %s | %s |' % row)
print()
print('%d caught, %d missed, %d stale, %d neutralised' % (
    rep['killed'], rep['missed'], rep['stale'], sum(1 for r in rep['results'] if r['status'] == 'neutralised')))
