#!/venv/bin/python
"""rebuild selftest/mutants.json from the log of a `./check selftest --mutants` run that was stopped before it
could write the file itself (one line per entry: KILLED / MISSED / STALE / NEUTRAL ...). usage: tools/mutants_from_log.py LOG COMMIT"""
import json
import os
import re
import sys

HERE = os.path.dirname(os.path.dirname(os.path.abspath(__file__)))
sys.path.insert(0, HERE)
from sim import core, mutants  # noqa: E402

log, commit = sys.argv[1], sys.argv[2]
notes = dict((e['id'], e) for e in mutants.CATALOGUE + mutants.seeded_entries())
res = {}
for line in open(log):
    m = re.match(r'^(KILLED|MISSED)\s+(\S+)\s+by=(\S+) replay_reproduces=(\S+) (\{.*\})\s*$', line)
    if m:
        st, mid, by, rr, det = m.groups()
        ent = notes.get(mid, {})
        res[mid] = {'id': mid, 'status': st.lower(), 'caught_by': [] if by == '-' else by.split(','),
                    'expected': ent.get('props', []), 'replay_reproduces': {'True': True, 'False': False}.get(rr),
                    'detail': json.loads(det), 'note': ent.get('note'), 'seeded': bool(ent.get('seeded'))}
        continue
    m = re.match(r'^STALE\s+(\S+)\s+(.*)$', line)
    if m:
        res[m.group(1)] = {'id': m.group(1), 'status': 'stale', 'why': m.group(2).strip()}
        continue
    m = re.match(r'^NEUTRAL\s+(\S+)\s+(.*)$', line)
    if m:
        res[m.group(1)] = {'id': m.group(1), 'status': 'neutralised', 'why': m.group(2).strip(), 'seeded': True}
order = [e['id'] for e in mutants.CATALOGUE + mutants.seeded_entries()]
allres = [res[i] for i in order if i in res]
for r in allres:
    r['repo_hash'] = core.repo_hash()
    r['verif_commit'] = commit
rep = {'killed': sum(1 for r in allres if r['status'] == 'killed'), 'missed': sum(1 for r in allres if r['status'] == 'missed'),
       'stale': sum(1 for r in allres if r['status'] == 'stale'), 'wall_s': None, 'repo_hash': core.repo_hash(),
       'results': allres, 'rebuilt_from_log': os.path.basename(os.path.dirname(log)) + '/log',
       'not_run': [i for i in order if i not in res]}
with open(os.path.join(HERE, 'selftest', 'mutants.json'), 'w') as f:
    json.dump(rep, f, indent=1, sort_keys=True)
print('%d entries: %d killed, %d missed, %d stale; not run: %d' % (len(allres), rep['killed'], rep['missed'], rep['stale'], len(rep['not_run'])))
