#!/venv/bin/python
"""merge the KILLED / MISSED lines of a partial `--mutants --only` log into selftest/mutants.json (for a partial run that
was stopped before it could merge its results itself). usage: tools/mutants_merge_log.py LOG COMMIT"""
import json
import os
import re
import sys
HERE = os.path.dirname(os.path.dirname(os.path.abspath(__file__)))
sys.path.insert(0, HERE)
from sim import core, mutants  # noqa: E402
log, commit = sys.argv[1], sys.argv[2]
path = os.path.join(HERE, 'selftest', 'mutants.json')
rep = json.load(open(path))
notes = dict((e['id'], e) for e in mutants.CATALOGUE + mutants.seeded_entries())
by_id = dict((r['id'], r) for r in rep['results'])
n = 0
for line in open(log):
    m = re.match(r'^(KILLED|MISSED)\s+(\S+)\s+by=(\S+) replay_reproduces=(\S+) (\{.*\})\s*$', line)
    if not m:
        continue
    st, mid, by, rr, det = m.groups()
    ent = notes.get(mid, {})
    by_id[mid] = {'id': mid, 'status': st.lower(), 'caught_by': [] if by == '-' else by.split(','),
                  'expected': ent.get('props', []), 'replay_reproduces': {'True': True, 'False': False}.get(rr),
                  'detail': json.loads(det), 'note': ent.get('note'), 'seeded': bool(ent.get('seeded')),
                  'repo_hash': core.repo_hash(), 'verif_commit': commit}
    n += 1
for e in mutants.seeded_entries():
    if e.get('neutralised_by') and e['id'] in by_id and by_id[e['id']]['status'] != 'neutralised':
        by_id[e['id']] = {'id': e['id'], 'status': 'neutralised', 'why': e['neutralised_by'], 'seeded': True,
                          'repo_hash': core.repo_hash(), 'verif_commit': commit}
order = [e['id'] for e in mutants.CATALOGUE + mutants.seeded_entries()]
rep['results'] = [by_id[i] for i in order if i in by_id]
for k in ('killed', 'missed', 'stale'):
    rep[k] = sum(1 for r in rep['results'] if r['status'] == k)
rep['not_run'] = [i for i in order if i not in by_id]
json.dump(rep, open(path, 'w'), indent=1, sort_keys=True)
print('merged %d lines: %d killed, %d missed, %d stale' % (n, rep['killed'], rep['missed'], rep['stale']))
