#!/bin/bash
# usage: tools/try_seeded.sh <seeded id> <property> [families]   - experiments: applies seeded/<id>/patch.diff to a
# scratch copy of /repo under /tmp, runs the quick check of <property> against it (optionally only some families),
# removes the scratch copy. Evidence and replays go to the scratch copy, not to /verif.
id=$1; prop=$2; fams=$3
base=$(mktemp -d /tmp/verif-try-XXXXXX)
trap 'rm -rf "$base"' EXIT
mkdir -p $base/pybufrkit
rsync -a --exclude __pycache__ --exclude tables /repo/pybufrkit/ $base/pybufrkit/
ln -s /repo/pybufrkit/tables $base/pybufrkit/tables
ln -s /repo/tests $base/tests
(cd / && git apply --unsafe-paths --directory $base /verif/seeded/$id/patch.diff) || { echo "patch does not apply"; exit 3; }
cd /verif
env VERIF_REPO=$base VERIF_REPLAY_DIR=$base/replays VERIF_EVIDENCE_DIR=$base/evidence ${fams:+VERIF_FAMILIES=$fams} ./check $prop --tier quick 2>&1 | grep -E "^family|VIOLATION|signature|HARNESS|exit" | head -${TRY_LINES:-14}
