#!/bin/bash
# multi-seed sweep of the quick (or given) tier of every check on the tree under test; prints one line per run
tier=${1:-quick}; shift
seeds=${@:-1 2 3 4 5 6 7 8}
for s in $seeds; do
  for p in C06 C08 C11 C12 C13 C17 C20; do
    out=$(VERIF_SEED=$s ./check $p --tier $tier 2>&1); code=$?
    echo "seed=$s $p exit=$code $(echo "$out" | tail -1)"
    if [ $code -ne 0 ]; then echo "$out" | grep -A1 -E "VIOLATION|HARNESS|KNOWN" | head -20; fi
  done
done
